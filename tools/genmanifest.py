#!/usr/bin/env python3
"""Regenerates /verif/MANIFEST.json from props.json (claimed checks) and na.json (reasons for the rest)."""
import json, subprocess, os
V = '/verif'
props = [json.loads(l) for l in open(f'{V}/properties.jsonl')]
cfg = json.load(open(f'{V}/props.json'))
na = json.load(open(f'{V}/na.json')) if os.path.exists(f'{V}/na.json') else {}
hooks = []
try:
    out = subprocess.run(['git', '-C', '/repo', 'log', '--format=%H %s'], capture_output=True, text=True).stdout
    for ln in out.splitlines():
        h, s = ln.split(' ', 1)
        if s.startswith('verif-hook:'):
            hooks.append(h)
except Exception:
    pass
checks, napp = [], []
for p in props:
    i = p['id']
    c = cfg.get(i)
    if c and c.get('claimed', True):
        checks.append({
            'property_id': i,
            'quick_cmd': f'./check {i} quick',
            'thorough_cmd': f'./check {i} thorough',
            'evidence_file': f'/verif/evidence/{i}.json',
            'replay_cmd_template': './check --replay {path}',
            'engine': 'govc',
            'level_claimed': {'category': c.get('level', 'proof'), 'text': c.get('text', ''), 'design_ref': c.get('design_ref', 'DESIGN.md §5 ' + i)},
            'level_note': c.get('note', ''),
            'technique': c.get('technique', 'contract-based deductive verification: weakest-precondition VCs generated from go/ssa of the real functions, contracts in zz_contracts_verif.go, discharged by z3/cvc5'),
        })
    else:
        napp.append({'property_id': i, 'reason': na.get(i, 'no check built yet (engine feature or contracts not delivered); see DESIGN.md')})
m = {
    'version': 1,
    'setup_cmd': './setup.sh',
    'hooks': {'guard': 'verif', 'enable': 'go build -tags verif ./...  (hooks are the contract files zz_contracts_verif.go - comments only, read by govc - and the lemma files zz_lemmas_verif.go: small never-called Go functions that compose real functions so that a round trip becomes an ordinary postcondition; both are guarded by the build tag verif and are not part of a normal build)',
              'baseline_off_cmd': "cd /repo && go test -mod=mod -json -vet=off -count=1 -timeout 25m ./...",
              'source_commits': hooks, 'add_only': True},
    'engines': [{'name': 'govc', 'path': '/verif/engine', 'serves_properties': [c['property_id'] for c in checks],
                 'kind_free_text': 'self-written verification-condition generator for Go: symbolic execution of go/ssa (NaiveForm) of the real functions in /repo against contracts (requires/ensures/modifies/loop invariants/lemmas) kept in build-tag-guarded comment files; obligations discharged by z3 5.1.0, cvc5 1.0.3, z3 4.8.12'}],
    'checks': checks,
    'notes': 'See DESIGN.md. Violations: an obligation discharged on the unchanged tree (baseline/obligations.json) that no longer discharges; sat models are replayed on the real code where a harness exists.',
    'not_applicable': napp,
}
json.dump(m, open(f'{V}/MANIFEST.json', 'w'), indent=1)
print(len(checks), 'checks,', len(napp), 'not applicable')
