#!/usr/bin/env python3
"""Must-fail corpus: applies each patch under selftest/mutants and seeded/*/patch.diff to a scratch
worktree of /repo (under /tmp, removed afterwards; /repo itself is never touched), runs the property's
quick check against that tree (VERIF_REPO), and expects exit 1 with a VIOLATION line naming the expected obligation.
usage: tools/selftest.py [-j N] [name-substring ...]"""
import json, subprocess, sys, os, shutil, tempfile
from concurrent.futures import ThreadPoolExecutor
V = os.path.dirname(os.path.dirname(os.path.abspath(__file__)))
exp = json.load(open(f'{V}/selftest/expect.json'))
args = sys.argv[1:]
J = 4
if args and args[0] == '-j':
    J = int(args[1]); args = args[2:]
sel = args
def sh(cmd, **kw):
    return subprocess.run(cmd, shell=True, capture_output=True, text=True, **kw)
def one(e):
    name = e['patch']
    path = name if name.startswith('/') else f'{V}/{name}'
    wt = tempfile.mkdtemp(prefix='govc-st-')
    os.rmdir(wt)
    lines = []
    ok = True
    try:
        r = sh(f'git -C /repo worktree add --detach {wt} HEAD')
        if r.returncode != 0:
            return False, [f'SKIP {name}: worktree: {r.stderr.strip()[:200]}']
        # uncommitted contract edits in /repo (work in progress) are carried over
        d = sh('git -C /repo diff HEAD').stdout
        if d.strip():
            subprocess.run(f'git -C {wt} apply', shell=True, input=d, text=True, capture_output=True)
        r = sh(f'git -C {wt} apply {path}')
        if r.returncode != 0:
            return False, [f'SKIP {name}: patch does not apply: {r.stderr.strip()[:200]}']
        for prop in e['property'] if isinstance(e['property'], list) else [e['property']]:
            env = dict(os.environ, VERIF_REPO=wt, VERIF_EVIDENCE_DIR=f'{wt}.out/evidence', VERIF_OUT=f'{wt}.out/out', VERIF_JOBS=str(max(2, 16 // J)))
            r = sh(f'cd {V} && ./check {prop} quick', env=env)
            viol = [l for l in r.stdout.splitlines() if l.startswith('VIOLATION')]
            failed = [l for l in r.stdout.splitlines() if 'failed obligation' in l]
            hit = all(any(x in l for l in failed) for x in e.get('expect', []))
            if r.returncode == 1 and viol and hit:
                lines.append(f'CAUGHT {name} by {prop}: {len(failed)} obligation(s), e.g. {failed[0].strip()[:160] if failed else ""}' + (' (was a known miss: update expect.json)' if e.get('expect_missed') else ''))
            elif e.get('expect_missed') and r.returncode == 0:
                lines.append(f'missed {name} by {prop} (known miss: {e.get("note","")})')
            else:
                ok = False
                lines.append(f'MISSED {name} by {prop}: exit={r.returncode} violations={len(viol)} expected={e.get("expect")} {(r.stderr or "")[-300:].strip() if r.returncode not in (0,1) else ""}')
    finally:
        sh(f'git -C /repo worktree remove --force {wt}')
        shutil.rmtree(wt, ignore_errors=True)
        shutil.rmtree(wt + '.out', ignore_errors=True)
    return ok, lines
todo = [e for e in exp if not sel or any(s in e['patch'] for s in sel)]
bad = 0
with ThreadPoolExecutor(J) as ex:
    for ok, lines in ex.map(one, todo):
        for l in lines:
            print(l, flush=True)
        if not ok:
            bad += 1
sh('git -C /repo worktree prune')
print(f'{len(todo)-bad}/{len(todo)} as expected')
sys.exit(1 if bad else 0)
