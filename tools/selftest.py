#!/usr/bin/env python3
"""Must-fail corpus: applies each patch under selftest/mutants and seeded/*/patch.diff to /repo,
runs the property's check, expects exit 1 with a VIOLATION line, and restores /repo.
usage: tools/selftest.py [name-substring ...]"""
import json, subprocess, sys, os, glob
V = '/verif'
exp = json.load(open(f'{V}/selftest/expect.json'))
sel = sys.argv[1:]
bad = 0
def sh(cmd, **kw):
    return subprocess.run(cmd, shell=True, capture_output=True, text=True, **kw)
if sh('git -C /repo status --porcelain --untracked-files=no').stdout.strip():
    print('refusing: /repo has uncommitted changes'); sys.exit(2)
for e in exp:
    name = e['patch']
    if sel and not any(s in name for s in sel):
        continue
    path = name if name.startswith('/') else f'{V}/{name}'
    r = sh(f'git -C /repo apply {path}')
    if r.returncode != 0:
        print(f'SKIP {name}: patch does not apply: {r.stderr.strip()[:200]}'); bad += 1; continue
    try:
        outs = []
        ok = True
        for prop in e['property'] if isinstance(e['property'], list) else [e['property']]:
            r = sh(f'cd {V} && VERIF_EVIDENCE_DIR={V}/out/selftest-evidence ./check {prop} quick')  # never overwrite the committed evidence with a mutant run
            outs.append(r.stdout)
            viol = [l for l in r.stdout.splitlines() if l.startswith('VIOLATION')]
            failed = [l for l in r.stdout.splitlines() if 'failed obligation' in l]
            hit = all(any(x in l for l in failed) for x in e.get('expect', []))
            if r.returncode == 1 and viol and hit:
                print(f'CAUGHT {name} by {prop}: {len(failed)} obligation(s), e.g. {failed[0].strip()[:160] if failed else ""}')
                print('       ', viol[0])
            else:
                ok = False
                print(f'MISSED {name} by {prop}: exit={r.returncode} violations={len(viol)} expected={e.get("expect")}')
        if not ok:
            bad += 1
    finally:
        sh('git -C /repo checkout -- .')
sys.exit(1 if bad else 0)
