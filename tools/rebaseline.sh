#!/bin/sh
# Re-records the discharged-obligation baseline for the given (default: all claimed) properties.
# Only to be run on the unchanged /repo tree (committed state).
cd "$(dirname "$0")/.."
if [ -n "$(git -C /repo status --porcelain --untracked-files=no)" ]; then echo "refusing: /repo has uncommitted changes"; exit 2; fi
props="$@"; [ -z "$props" ] && props=$(python3 -c "import json;print(' '.join(k for k,v in json.load(open('props.json')).items() if v.get('claimed',True)))")
for p in $props; do bin/govc baseline $p | tail -2; done
