#!/bin/sh
# Runs every claimed check (quick) on the current tree; prints one line per property.
cd "$(dirname "$0")/.."
props=$(python3 -c "import json;print(' '.join(k for k,v in json.load(open('props.json')).items() if v.get('claimed',True)))")
rc=0
for p in $props; do
  out=$(./check $p quick 2>&1); code=$?
  echo "$p exit=$code $(echo "$out" | grep -E "^$p " | tail -1)"
  echo "$out" | grep -E "^VIOLATION|^UNDECIDED|^ERROR" | head -5
  [ $code -ne 0 ] && rc=1
done
exit $rc
