#!/bin/bash
# usage: confirm_seed.sh <seed-dir>...   Confirms a seeded change in a scratch worktree:
# patch applies+builds, existing tests of touched packages pass, demo fails with the change and passes without.
export GOFLAGS=-mod=mod GOPROXY=off GOSUMDB=off GOTOOLCHAIN=local
for d in "$@"; do
  d=$(realpath $d); name=$(basename $d)
  wt=$(mktemp -d /tmp/seedwt.XXXXXX); rmdir $wt
  git -C /repo worktree add -q --detach $wt HEAD || { echo "$name: worktree failed"; continue; }
  (
    cd $wt
    demo=$d/demo_test.go.txt
    # where does the demo go? first comment line names the path; fall back to package of the patch
    pkgdirs=$(grep '^+++ b/' $d/patch.diff | sed 's|+++ b/||' | xargs -n1 dirname | sort -u)
    demodir=$(grep -m1 -oE '(consensus|common|service|block|btp|network|icon|server)[A-Za-z0-9_/]*/[a-z0-9_]+_test\.go' $demo | head -1 | xargs -r dirname)
    [ -z "$demodir" ] && demodir=$(echo "$pkgdirs" | head -1)
    run=$(grep -m1 -oE 'Test[A-Za-z0-9_]+' $demo | head -1)
    cp $demo $demodir/zz_seed_demo_test.go
    clean=$(go test -vet=off -count=1 -timeout 300s -run "$run" ./$demodir/ 2>&1 | tail -1)
    git apply $d/patch.diff || { echo "$name: patch does not apply"; exit; }
    build=$(go build ./... 2>&1 | tail -2)
    seeded=$(go test -vet=off -count=1 -timeout 300s -run "$run" ./$demodir/ 2>&1 | tail -1)
    rm $demodir/zz_seed_demo_test.go
    tests=""
    for p in $pkgdirs; do
      out=$(go test -vet=off -count=1 -timeout 600s ./$p/ 2>&1)
      res=$(echo "$out" | tail -1 | cut -c1-80)
      if echo "$res" | grep -q FAIL; then
        # tests that fail on the unchanged tree as well (sandbox: loopback dial refused) do not count
        failing=$(echo "$out" | grep -E '^--- FAIL' | awk '{print $3}' | sort -u | tr '\n' ' ')
        base=$(cd /repo && go test -vet=off -count=1 -timeout 600s ./$p/ 2>&1 | grep -E '^--- FAIL' | awk '{print $3}' | sort -u | tr '\n' ' ')
        if [ "$failing" = "$base" ]; then res="ok (same tests fail on the unchanged tree: $base)"; else res="FAIL [$failing] vs unchanged [$base]"; fi
      fi
      tests="$tests $res;"
    done
    echo "$name: demo(clean)=[$clean] demo(seeded)=[$seeded] build=[${build:-ok}] existing-tests=[$tests]"
    python3 - "$d" "$clean" "$seeded" "${build:-ok}" "$tests" "$run" "$demodir" <<'PY'
import json,sys
d,clean,seeded,build,tests,run,demodir=sys.argv[1:8]
m=json.load(open(d+'/meta.json'))
m['confirmed']={'demo_on_unchanged_tree':clean,'demo_with_change':seeded,'build_with_change':build,'existing_tests_with_change':tests,'demo_test':run,'demo_dir':demodir,
  'ok': clean.startswith('ok') and ('FAIL' in seeded) and build=='ok' and 'FAIL' not in tests}
json.dump(m,open(d+'/meta.json','w'),indent=1)
PY
  )
  git -C /repo worktree remove --force $wt
done
