#!/usr/bin/env python3
"""Re-runs the in-package test of a replay record (written by govc for a counterexample it could
rebuild) on the real code in /repo (go test -overlay: nothing is written into the repository).
exit 1 when the record says the violation was reproduced and the test still runs, 0 otherwise."""
import json, os, re, subprocess, sys, tempfile
rec = json.load(open(sys.argv[1]))
rp = rec.get('replay') or {}
src = rp.get('test_file')
if not src:
    print('\n[replay] no executable replay in this record (%s)' % (rp.get('note') or 'the solver gave no model: no-failing-input-found'))
    sys.exit(0)
m = re.match(r'cd (\S+) &&', rp.get('command', ''))
pkgdir = m.group(1) if m else None
if not pkgdir or not os.path.isdir(pkgdir):
    print('\n[replay] package directory not found'); sys.exit(0)
with tempfile.TemporaryDirectory() as d:
    tf = os.path.join(d, 'zz_govc_replay_test.go'); open(tf, 'w').write(src)
    ov = os.path.join(d, 'ov.json'); json.dump({'Replace': {os.path.join(pkgdir, 'zz_govc_replay_test.go'): tf}}, open(ov, 'w'))
    env = dict(os.environ, GOFLAGS='-mod=mod', GOPROXY='off', GOSUMDB='off', GOTOOLCHAIN='local')
    r = subprocess.run(['go', 'test', '-overlay', ov, '-vet=off', '-count=1', '-timeout', '60s', '-run', '^TestGovcReplay$', '-v', '.'], cwd=pkgdir, env=env, capture_output=True, text=True)
    print('\n[replay] inputs:', json.dumps(rp.get('inputs')))
    print('[replay] recorded result:', rp.get('observed'))
    mm = re.search(r'GOVC-REPLAY (\{.*\})', r.stdout)
    print('[replay] result now     :', mm.group(1) if mm else (r.stdout + r.stderr)[-800:])
    print('[replay] clause violated:', rec.get('clause'))
sys.exit(1 if rp.get('reproduced') else 0)
