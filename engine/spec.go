package main

// Evaluation of contract expressions to SMT terms over a symbolic state.

import (
	"fmt"
	"go/constant"
	"go/token"
	"go/types"
	"math/big"
	"regexp"
	"strings"

	"golang.org/x/tools/go/ssa"
)

type SpecEnv struct {
	x      *Exec
	fr     *frame
	st     *State
	old    *State
	vars   map[string]Val
	li     *loopInfo
	pkg    *types.Package
	depth  int
	inCall bool // evaluating a callee contract at a call site: no local lookup
	// pol: +1 the formula is a hypothesis here (assumed, or a goal under negation),
	// -1 it is a goal (to be proved, or an assumption under negation), 0 unknown/mixed.
	pol  int
	univ []Val // enclosing universally bound variables (for skolem functions)
}

func (e *SpecEnv) with(vars map[string]Val) *SpecEnv {
	n := *e
	n.vars = map[string]Val{}
	for k, v := range e.vars {
		n.vars[k] = v
	}
	for k, v := range vars {
		n.vars[k] = v
	}
	return &n
}

// specEnv builds the environment for clauses of the function being executed in frame fr.
func (x *Exec) specEnv(fr *frame, st *State, li *loopInfo) *SpecEnv {
	env := &SpecEnv{x: x, fr: fr, st: st, old: x.entry, vars: map[string]Val{}, li: li}
	if fr != nil {
		env.pkg = fr.fn.Pkg.Pkg
		if fr.depth == 0 {
			for k, v := range x.params {
				env.vars[k] = v
			}
		} else if fr.fc != nil {
			// inlined function with loop specs: its contract names bind to its parameters
			names := append([]string{}, fr.fc.Params...)
			if fr.fc.Recv != "" {
				names = append([]string{fr.fc.RecvName}, names...)
			}
			for i, p := range fr.fn.Params {
				if i < len(names) {
					if v, ok := st.regs[p]; ok {
						env.vars[names[i]] = v
					}
				}
			}
		}
	}
	return env
}

func (x *Exec) evalBool(e Expr, env *SpecEnv) (Term, error) {
	v, err := x.evalSpec(e, env)
	if err != nil {
		return Term{}, err
	}
	if v.T.Sort != SBool {
		return Term{}, fmt.Errorf("boolean expression expected, got sort %q", v.T.Sort)
	}
	return v.T, nil
}

func isLiteral(e Expr) bool {
	switch t := e.(type) {
	case *EInt:
		return true
	case *EUnary:
		return (t.Op == "-" || t.Op == "^") && isLiteral(t.X)
	case *EBinary:
		return isLiteral(t.X) && isLiteral(t.Y) && binPrec[t.Op] >= 6
	}
	return false
}

func literalValue(e Expr) *big.Int {
	switch t := e.(type) {
	case *EInt:
		v, ok := new(big.Int).SetString(t.Val, 0)
		if !ok {
			return nil
		}
		return v
	case *EUnary:
		v := literalValue(t.X)
		if v == nil {
			return nil
		}
		if t.Op == "-" {
			return v.Neg(v)
		}
		return v.Not(v)
	case *EBinary:
		a, b := literalValue(t.X), literalValue(t.Y)
		if a == nil || b == nil {
			return nil
		}
		switch t.Op {
		case "+":
			return a.Add(a, b)
		case "-":
			return a.Sub(a, b)
		case "*":
			return a.Mul(a, b)
		case "<<":
			return a.Lsh(a, uint(b.Int64()))
		case ">>":
			return a.Rsh(a, uint(b.Int64()))
		case "/":
			if b.Sign() != 0 {
				return a.Quo(a, b)
			}
		}
	}
	return nil
}

func (x *Exec) kindOfVal(v Val) (IntKind, bool) {
	if v.Typ != nil {
		return intKindOf(v.Typ)
	}
	if v.T.Sort == SInt {
		return IntKind{64, true}, true // mathematical
	}
	if w, ok := isBV(v.T.Sort); ok {
		return IntKind{w, false}, true
	}
	return IntKind{}, false
}

var basicByName = map[string]*types.Basic{
	"int": types.Typ[types.Int], "int8": types.Typ[types.Int8], "int16": types.Typ[types.Int16], "int32": types.Typ[types.Int32], "int64": types.Typ[types.Int64],
	"uint": types.Typ[types.Uint], "uint8": types.Typ[types.Uint8], "uint16": types.Typ[types.Uint16], "uint32": types.Typ[types.Uint32], "uint64": types.Typ[types.Uint64],
	"byte": types.Typ[types.Uint8], "bool": types.Typ[types.Bool], "uintptr": types.Typ[types.Uintptr], "rune": types.Typ[types.Int32], "string": types.Typ[types.String],
}

func (x *Exec) evalSpecHint(e Expr, env *SpecEnv, hint types.Type, hintSort string) (Val, error) {
	if isLiteral(e) {
		v := literalValue(e)
		if v == nil {
			return Val{}, fmt.Errorf("bad literal")
		}
		if hint != nil {
			if k, ok := intKindOf(hint); ok {
				return Val{T: x.vc.ar.Lit(v, k), Typ: hint}, nil
			}
		}
		if w, ok := isBV(hintSort); ok {
			return Val{T: bvLit(v, w)}, nil
		}
		if hintSort == SInt || x.vc.ar.Mode == ModeInt {
			return Val{T: intLit(v)}, nil
		}
		return Val{T: x.vc.ar.Lit(v, kInt), Typ: types.Typ[types.Int]}, nil
	}
	if _, ok := e.(*ENil); ok {
		if hint != nil {
			return Val{T: x.vc.zeroOf(hint), Typ: hint}, nil
		}
		switch hintSort {
		case "Slice":
			return Val{T: x.vc.zeroOf(types.NewSlice(types.Typ[types.Uint8]))}, nil
		case "Iface":
			return Val{T: raw("(mk-iface 0 0)", "Iface")}, nil
		}
		return Val{T: intLit64(0)}, nil
	}
	return x.evalSpec(e, env)
}

func (x *Exec) evalSpec(e Expr, env *SpecEnv) (Val, error) {
	vc := x.vc
	env.depth++
	defer func() { env.depth-- }()
	if env.depth > 200 {
		return Val{}, fmt.Errorf("spec expression too deep (recursive spec macro?)")
	}
	switch t := e.(type) {
	case *EBool:
		return Val{T: boolT(t.Val), Typ: types.Typ[types.Bool]}, nil
	case *EInt:
		return x.evalSpecHint(e, env, nil, "")
	case *ENil:
		return Val{T: intLit64(0)}, nil
	case *EStr:
		return Val{T: vc.strLit(t.Val), Typ: types.Typ[types.String]}, nil
	case *EIdent:
		return x.lookup(t.Name, env)
	case *EUnary:
		if isLiteral(e) {
			return x.evalSpecHint(e, env, nil, "")
		}
		uenv := env
		if t.Op == "!" {
			n := *env
			n.pol = -env.pol
			uenv = &n
		}
		v, err := x.evalSpec(t.X, uenv)
		if err != nil {
			return Val{}, err
		}
		switch t.Op {
		case "!":
			if v.T.Sort != SBool {
				return Val{}, fmt.Errorf("! on non-boolean")
			}
			return Val{T: Not(v.T), Typ: v.Typ}, nil
		case "-":
			k, ok := x.kindOfVal(v)
			if !ok {
				return Val{}, fmt.Errorf("- on non-integer")
			}
			return Val{T: vc.ar.Neg(v.T, k), Typ: v.Typ}, nil
		case "^":
			k, ok := x.kindOfVal(v)
			if !ok {
				return Val{}, fmt.Errorf("^ on non-integer")
			}
			return Val{T: vc.ar.Compl(v.T, k), Typ: v.Typ}, nil
		}
	case *EBinary:
		return x.evalBinary(t, env)
	case *ECond:
		cenv := *env
		cenv.pol = 0
		c, err := x.evalBool(t.C, &cenv)
		if err != nil {
			return Val{}, err
		}
		var a, b Val
		if isLiteral(t.A) || isNilExpr(t.A) {
			b, err = x.evalSpec(t.B, env)
			if err != nil {
				return Val{}, err
			}
			a, err = x.evalSpecHint(t.A, env, b.Typ, b.T.Sort)
		} else {
			a, err = x.evalSpec(t.A, env)
			if err != nil {
				return Val{}, err
			}
			b, err = x.evalSpecHint(t.B, env, a.Typ, a.T.Sort)
		}
		if err != nil {
			return Val{}, err
		}
		if a.T.Sort != b.T.Sort {
			return Val{}, fmt.Errorf("?: branches have sorts %s and %s", a.T.Sort, b.T.Sort)
		}
		return Val{T: Ite(c, a.T, b.T), Typ: a.Typ}, nil
	case *EQuant:
		return x.evalQuant(t, env)
	case *ESel:
		// package-qualified name?
		if id, ok := t.X.(*EIdent); ok {
			if _, bound := env.vars[id.Name]; !bound {
				if p := x.importedPkg(env, id.Name); p != nil {
					return x.pkgObject(p, t.Name, env)
				}
			}
		}
		xv, err := x.evalSpec(t.X, env)
		if err != nil {
			return Val{}, err
		}
		return x.selectField(env, xv, t.Name)
	case *EIndex:
		xv, err := x.evalSpec(t.X, env)
		if err != nil {
			return Val{}, err
		}
		return x.indexVal(env, xv, t.I)
	case *ESlice:
		xv, err := x.evalSpec(t.X, env)
		if err != nil {
			return Val{}, err
		}
		if xv.T.Sort != "Slice" {
			return Val{}, fmt.Errorf("slicing of non-slice in spec")
		}
		idxS := vc.ar.IdxSort()
		off, ln, cp := app(idxS, "s-off", xv.T), app(idxS, "s-len", xv.T), app(idxS, "s-cap", xv.T)
		lo, hi := vc.idx(0), ln
		if t.Lo != nil {
			v, err := x.evalSpecHint(t.Lo, env, types.Typ[types.Int], "")
			if err != nil {
				return Val{}, err
			}
			lo = v.T
		}
		if t.Hi != nil {
			v, err := x.evalSpecHint(t.Hi, env, types.Typ[types.Int], "")
			if err != nil {
				return Val{}, err
			}
			hi = v.T
		}
		noff, _ := vc.ar.Bin("+", off, lo, kInt)
		nlen, _ := vc.ar.Bin("-", hi, lo, kInt)
		ncap, _ := vc.ar.Bin("-", cp, lo, kInt)
		return Val{T: app("Slice", "mk-slice", app(SInt, "s-ref", xv.T), noff, nlen, ncap), Typ: xv.Typ}, nil
	case *ECall:
		return x.evalCall(t, env)
	}
	return Val{}, fmt.Errorf("unsupported spec expression %T", e)
}

func isNilExpr(e Expr) bool { _, ok := e.(*ENil); return ok }

func (x *Exec) importedPkg(env *SpecEnv, name string) *types.Package {
	if env.pkg == nil {
		return nil
	}
	for _, imp := range env.pkg.Imports() {
		if imp.Name() == name {
			return imp
		}
	}
	return nil
}

func (x *Exec) pkgObject(p *types.Package, name string, env *SpecEnv) (Val, error) {
	obj := p.Scope().Lookup(name)
	if obj == nil {
		return Val{}, fmt.Errorf("%s.%s not found", p.Name(), name)
	}
	switch o := obj.(type) {
	case *types.Const:
		return x.constObj(o)
	case *types.Var:
		sp := x.eng.prog.Package(p)
		if sp == nil {
			return Val{}, fmt.Errorf("package %s not in program", p.Path())
		}
		g, ok := sp.Members[name].(*ssa.Global)
		if !ok {
			return Val{}, fmt.Errorf("%s.%s is not a global", p.Name(), name)
		}
		gv, err := x.val(env.st, g)
		if err != nil {
			return Val{}, err
		}
		if gv.Loc != nil {
			v, err := x.vc.loadLoc(env.st, gv.Loc)
			return v, err
		}
		return gv, nil
	}
	return Val{}, fmt.Errorf("%s.%s: unsupported object kind", p.Name(), name)
}

func (x *Exec) constObj(o *types.Const) (Val, error) {
	c := o.Val()
	switch c.Kind() {
	case constant.Bool:
		return Val{T: boolT(constant.BoolVal(c)), Typ: o.Type()}, nil
	case constant.Int:
		bi, _ := new(big.Int).SetString(c.ExactString(), 10)
		if k, ok := intKindOf(o.Type()); ok {
			if b, isB := o.Type().Underlying().(*types.Basic); isB && b.Info()&types.IsUntyped != 0 {
				if x.vc.ar.Mode == ModeInt {
					return Val{T: intLit(bi)}, nil
				}
			}
			return Val{T: x.vc.ar.Lit(bi, k), Typ: o.Type()}, nil
		}
	case constant.String:
		return Val{T: x.vc.strLit(constant.StringVal(c)), Typ: o.Type()}, nil
	}
	return Val{}, fmt.Errorf("constant %s: unsupported kind", o.Name())
}

// lookup resolves a bare identifier.
func (x *Exec) lookup(name string, env *SpecEnv) (Val, error) {
	if strings.HasPrefix(name, "caller_") {
		// in a callpre rule: the caller's variable, even when a callee parameter has the same name
		if _, shadowed := env.vars["$local:"+name[7:]]; shadowed {
			n := *env
			n.vars = map[string]Val{}
			for k, v := range env.vars {
				if k != "$local:"+name[7:] {
					n.vars[k] = v
				}
			}
			return x.lookup(name[7:], &n)
		}
		if v, err := x.lookup(name[7:], env); err == nil {
			return v, nil
		}
	}
	if v, ok := env.vars["$local:"+name]; ok {
		return v, nil
	}
	// local variable (current value) shadows the parameter's entry value
	if env.fr != nil && !env.inCall && env.st != nil {
		if v, ok, err := x.localVar(env, name); err != nil {
			return Val{}, err
		} else if ok {
			return v, nil
		}
	}
	if v, ok := env.vars[name]; ok {
		return v, nil
	}
	if env.pkg != nil {
		if obj := env.pkg.Scope().Lookup(name); obj != nil {
			return x.pkgObject(env.pkg, name, env)
		}
	}
	switch name {
	case "MaxInt64":
		return Val{T: x.vc.ar.Lit(kInt.max(), kInt), Typ: types.Typ[types.Int64]}, nil
	case "MinInt64":
		return Val{T: x.vc.ar.Lit(kInt.min(), kInt), Typ: types.Typ[types.Int64]}, nil
	}
	// declared SMT constant?
	if s, ok := x.eng.smtSorts[name]; ok {
		return Val{T: raw(name, x.eng.smtSort(s, x.vc.ar.Mode))}, nil
	}
	return Val{}, fmt.Errorf("unknown identifier %q", name)
}

// localVar finds the current value of a local variable (by source name) of the frame's function.
func (x *Exec) localVar(env *SpecEnv, name string) (Val, bool, error) {
	fr := env.fr
	st := env.st
	// contract parameter alias -> code parameter name
	code := name
	if fr.fc != nil {
		names := append([]string{}, fr.fc.Params...)
		if fr.fc.Recv != "" {
			names = append([]string{fr.fc.RecvName}, names...)
		}
		for i, n := range names {
			if n == name && i < len(fr.fn.Params) {
				code = fr.fn.Params[i].Name()
			}
		}
	}
	var best *ssa.Alloc
	for _, b := range fr.fn.Blocks {
		for _, in := range b.Instrs {
			a, ok := in.(*ssa.Alloc)
			if !ok || a.Comment != code {
				continue
			}
			if a.Heap {
				if _, live := st.regs[a]; !live {
					continue
				}
			} else if _, live := st.cellOf[a]; !live {
				continue
			}
			if env.li != nil && !a.Block().Dominates(env.li.header) {
				continue
			}
			// several variables of that name may be in scope (shadowing, the hidden "rangeindex"
			// of consecutive range loops): take the innermost / latest one, i.e. the one declared
			// in the block that is deepest in the dominator tree, later instruction on ties
			switch {
			case best == nil:
				best = a
			case a.Block() == best.Block():
				if instrIndex(a) > instrIndex(best) {
					best = a
				}
			case best.Block().Dominates(a.Block()):
				best = a
			case a.Block().Dominates(best.Block()):
			case a.Pos() > best.Pos():
				best = a
			}
		}
	}
	if best == nil {
		return Val{}, false, nil
	}
	pv, ok := st.regs[best]
	if !ok {
		return Val{}, false, nil
	}
	if pv.Loc != nil {
		v, err := x.vc.loadLoc(st, pv.Loc)
		return v, err == nil, err
	}
	// heap-allocated struct/array local: the variable denotes the object
	et := best.Type().(*types.Pointer).Elem()
	t, err := x.vc.loadObject(st, pv.T, et)
	if err != nil {
		return Val{}, false, err
	}
	return Val{T: t, Typ: et}, true, nil
}

func (x *Exec) selectField(env *SpecEnv, xv Val, name string) (Val, error) {
	vc := x.vc
	var base types.Type
	if xv.Loc != nil {
		base = types.NewPointer(vc.locType(xv.Loc))
		// value stored at loc is a struct (interior pointer)
	} else {
		base = xv.Typ
	}
	if base == nil {
		return Val{}, fmt.Errorf("field %s of untyped value", name)
	}
	obj, index, _ := types.LookupFieldOrMethod(base, true, nil, name)
	if obj == nil {
		// unexported field of another package: need the package
		if n := namedOf(base); n != nil && n.Obj().Pkg() != nil {
			obj, index, _ = types.LookupFieldOrMethod(base, true, n.Obj().Pkg(), name)
		}
	}
	if _, ok := obj.(*types.Var); !ok || obj == nil {
		return Val{}, fmt.Errorf("no field %s in %s", name, base)
	}
	cur := xv
	curT := base
	if xv.Loc != nil {
		curT = base
	}
	for _, fi := range index {
		// auto-deref
		var stT types.Type
		if p, ok := curT.Underlying().(*types.Pointer); ok {
			stT = p.Elem()
			su := stT.Underlying().(*types.Struct)
			ft := su.Field(fi).Type()
			if cur.Loc != nil {
				cur = Val{Loc: cur.Loc.with(PathEl{Field: fi, Name: su.Field(fi).Name(), From: stT})}
			} else {
				if _, isArr := ft.Underlying().(*types.Array); isArr {
					// array field: value of the array
					a, err := vc.loadObject(env.st, vc.afld(stT, fi, cur.T), ft)
					if err != nil {
						return Val{}, err
					}
					cur = Val{T: a, Typ: ft}
					curT = ft
					continue
				}
				key, _ := vc.fieldKey(stT, fi)
				cur = Val{Loc: &Loc{Kind: LField, Key: key, Ref: cur.T, RootT: ft}}
			}
			// load it
			v, err := vc.loadLoc(env.st, cur.Loc)
			if err != nil {
				return Val{}, err
			}
			if _, isStruct := ft.Underlying().(*types.Struct); isStruct {
				// keep as location so nested selection continues cheaply; but value is available too
				cur = Val{Loc: cur.Loc, T: v.T, Typ: types.NewPointer(ft)}
				curT = types.NewPointer(ft)
				// mark: value of struct is v.T with type ft
				cur.Tuple = nil
				continue
			}
			cur = v
			curT = ft
			continue
		}
		su, ok := curT.Underlying().(*types.Struct)
		if !ok {
			return Val{}, fmt.Errorf("field %s: %s is not a struct", name, curT)
		}
		sname := vc.structSort(curT)
		ft := su.Field(fi).Type()
		cur = Val{T: app(vc.sortOf(ft), sname+"."+fieldName(su, fi), cur.T), Typ: ft}
		curT = ft
	}
	if cur.Loc != nil {
		// selection ended on a struct-valued field: return the struct value
		v, err := vc.loadLoc(env.st, cur.Loc)
		if err != nil {
			return Val{}, err
		}
		return v, nil
	}
	return cur, nil
}

func namedOf(t types.Type) *types.Named {
	if p, ok := t.Underlying().(*types.Pointer); ok {
		t = p.Elem()
	}
	if p, ok := t.(*types.Pointer); ok {
		t = p.Elem()
	}
	n, _ := t.(*types.Named)
	return n
}

func (x *Exec) indexVal(env *SpecEnv, xv Val, ie Expr) (Val, error) {
	vc := x.vc
	if xv.Typ != nil {
		if mt, ok := xv.Typ.Underlying().(*types.Map); ok {
			kv, err := x.evalSpecHint(ie, env, mt.Key(), vc.sortOf(mt.Key()))
			if err != nil {
				return Val{}, err
			}
			hk, hs, vk, vs := vc.mapKeys(mt)
			has := And(Not(Eq(xv.T, intLit64(0))), Select(Select(vc.heapGet(env.st, hk, hs), xv.T), kv.T))
			v := Ite(has, Select(Select(vc.heapGet(env.st, vk, vs), xv.T), kv.T), vc.zeroOf(mt.Elem()))
			return Val{T: v, Typ: mt.Elem()}, nil
		}
	}
	iv, err := x.evalSpecHint(ie, env, types.Typ[types.Int], "")
	if err != nil {
		return Val{}, err
	}
	idx := iv.T
	if k, ok := x.kindOfVal(iv); ok && k.W != 64 && vc.ar.Mode == ModeBV {
		idx = vc.ar.Convert(iv.T, k, kInt)
	}
	switch {
	case xv.T.Sort == "Slice":
		var et types.Type
		if xv.Typ != nil {
			et = xv.Typ.Underlying().(*types.Slice).Elem()
		} else {
			et = types.Typ[types.Uint8]
		}
		key, hs := vc.elemKey(et)
		off := app(vc.ar.IdxSort(), "s-off", xv.T)
		abs := vc.elemIndex(off, idx)
		return Val{T: Select(Select(vc.heapGet(env.st, key, hs), app(SInt, "s-ref", xv.T)), abs), Typ: et}, nil
	case xv.T.Sort == "Str":
		return Val{T: app(vc.ar.Sort(IntKind{8, false}), "gs.at", xv.T, idx), Typ: types.Typ[types.Uint8]}, nil
	case strings.HasPrefix(xv.T.Sort, "(Array "):
		var et types.Type
		if xv.Typ != nil {
			if at, ok := xv.Typ.Underlying().(*types.Array); ok {
				et = at.Elem()
			}
		}
		ks, _ := arraySorts(xv.T.Sort)
		if ks != idx.Sort {
			return Val{}, fmt.Errorf("array index sort %s, expected %s", idx.Sort, ks)
		}
		return Val{T: Select(xv.T, idx), Typ: et}, nil
	case xv.Typ != nil:
		if p, ok := xv.Typ.Underlying().(*types.Pointer); ok {
			if at, ok := p.Elem().Underlying().(*types.Array); ok && xv.Loc == nil {
				key, hs := vc.elemKey(at.Elem())
				return Val{T: Select(Select(vc.heapGet(env.st, key, hs), xv.T), idx), Typ: at.Elem()}, nil
			}
		}
	}
	return Val{}, fmt.Errorf("indexing a value of sort %s", xv.T.Sort)
}

func (x *Exec) evalBinary(t *EBinary, env *SpecEnv) (Val, error) {
	vc := x.vc
	switch t.Op {
	case "&&", "||", "==>", "<==>":
		lenv, renv := env, env
		switch t.Op {
		case "==>":
			n := *env
			n.pol = -env.pol
			lenv = &n
		case "<==>":
			n := *env
			n.pol = 0
			lenv, renv = &n, &n
		}
		a, err := x.evalBool(t.X, lenv)
		if err != nil {
			return Val{}, err
		}
		b, err := x.evalBool(t.Y, renv)
		if err != nil {
			return Val{}, err
		}
		var r Term
		switch t.Op {
		case "&&":
			r = And(a, b)
		case "||":
			r = Or(a, b)
		case "==>":
			r = Implies(a, b)
		default:
			r = Iff(a, b)
		}
		return Val{T: r, Typ: types.Typ[types.Bool]}, nil
	}
	var a, b Val
	var err error
	if isLiteral(t.X) || isNilExpr(t.X) {
		b, err = x.evalSpec(t.Y, env)
		if err != nil {
			return Val{}, err
		}
		a, err = x.evalSpecHint(t.X, env, b.Typ, b.T.Sort)
	} else {
		a, err = x.evalSpec(t.X, env)
		if err != nil {
			return Val{}, err
		}
		b, err = x.evalSpecHint(t.Y, env, a.Typ, a.T.Sort)
	}
	if err != nil {
		return Val{}, err
	}
	switch t.Op {
	case "==", "!=":
		var eq Term
		switch {
		case a.T.Sort == "Slice" && isNilExpr(t.Y):
			eq = Eq(app(SInt, "s-ref", a.T), intLit64(0))
		case b.T.Sort == "Slice" && isNilExpr(t.X):
			eq = Eq(app(SInt, "s-ref", b.T), intLit64(0))
		case a.T.Sort == "Iface" && isNilExpr(t.Y):
			eq = Eq(a.T, raw("(mk-iface 0 0)", "Iface"))
		case b.T.Sort == "Iface" && isNilExpr(t.X):
			eq = Eq(b.T, raw("(mk-iface 0 0)", "Iface"))
		case a.T.Sort == "Iface" && b.T.Sort != "Iface" && b.Typ != nil:
			eq = Eq(a.T, vc.makeIface(b.T, b.Typ))
		case b.T.Sort == "Iface" && a.T.Sort != "Iface" && a.Typ != nil:
			eq = Eq(vc.makeIface(a.T, a.Typ), b.T)
		default:
			if a.T.Sort != b.T.Sort {
				return Val{}, fmt.Errorf("comparing sorts %s and %s", a.T.Sort, b.T.Sort)
			}
			eq = Eq(a.T, b.T)
		}
		if t.Op == "!=" {
			eq = Not(eq)
		}
		return Val{T: eq, Typ: types.Typ[types.Bool]}, nil
	}
	ka, oka := x.kindOfVal(a)
	kb, okb := x.kindOfVal(b)
	if !oka || !okb {
		return Val{}, fmt.Errorf("operator %s on non-integers (%s, %s)", t.Op, a.T.Sort, b.T.Sort)
	}
	k := ka
	rt := a.Typ
	if a.Typ == nil && b.Typ != nil {
		k, rt = kb, b.Typ
	}
	if vc.ar.Mode == ModeBV && a.T.Sort != b.T.Sort && t.Op != "<<" && t.Op != ">>" {
		return Val{}, fmt.Errorf("operator %s on different widths %s, %s (add a conversion)", t.Op, a.T.Sort, b.T.Sort)
	}
	switch t.Op {
	case "<", "<=", ">", ">=":
		return Val{T: vc.ar.Cmp(t.Op, a.T, b.T, k), Typ: types.Typ[types.Bool]}, nil
	case "<<", ">>":
		kb2 := kb
		kb2.Signed = false
		if vc.ar.Mode == ModeInt && b.T.C == nil {
			vc.needPow2()
		}
		r, err := vc.ar.Shift(t.Op, a.T, b.T, k, kb2)
		return Val{T: r, Typ: rt}, err
	case "/", "%":
		if vc.ar.Mode == ModeInt && a.Typ == nil && b.Typ == nil {
			// mathematical: Go-style truncated division is still what contracts mean
		}
		r, err := vc.ar.Bin(t.Op, a.T, b.T, k)
		return Val{T: r, Typ: rt}, err
	}
	r, err := vc.ar.Bin(t.Op, a.T, b.T, k)
	if vc.ar.Mode == ModeInt {
		rt = nil // mathematical result
		if a.Typ != nil && b.Typ != nil && (t.Op == "&" || t.Op == "|" || t.Op == "^" || t.Op == "&^") {
			rt = a.Typ
		}
	}
	return Val{T: r, Typ: rt}, err
}

func (x *Exec) evalQuant(q *EQuant, env *SpecEnv) (Val, error) {
	vc := x.vc
	vars := map[string]Val{}
	var decl []string
	var ranges []Term
	for _, v := range q.Vars {
		var sortS string
		var typ types.Type
		switch v.Type {
		case "ref":
			sortS = SInt
		case "mathint":
			sortS = SInt
		case "iface":
			sortS = "Iface"
		case "intarr":
			sortS = arraySort(vc.ar.IdxSort(), SInt)
		case "ifacearr":
			sortS = arraySort(vc.ar.IdxSort(), "Iface")
		case "boolarr":
			sortS = arraySort(vc.ar.IdxSort(), SBool)
		case "bytearr":
			sortS = arraySort(vc.ar.IdxSort(), vc.ar.Sort(IntKind{8, false}))
		case "bseq":
			sortS = "BSeq"
		case "str":
			sortS = "Str"
			typ = types.Typ[types.String]
		case "bytes":
			sortS = "Slice"
			typ = types.NewSlice(types.Typ[types.Uint8])
		default:
			b, ok := basicByName[v.Type]
			if !ok {
				// a named pointer type of the package: treated as reference
				if env.pkg != nil {
					tn := strings.TrimPrefix(strings.TrimPrefix(v.Type, "*"), "ptr_")
					if obj, ok2 := env.pkg.Scope().Lookup(tn).(*types.TypeName); ok2 {
						typ = types.NewPointer(obj.Type())
						sortS = SInt
						break
					}
				}
				return Val{}, fmt.Errorf("unknown quantifier type %q", v.Type)
			}
			typ = b
			sortS = vc.sortOf(b)
		}
		// globally unique SMT names: no capture when spec macros with their own quantifiers nest
		vc.fresh++
		name := fmt.Sprintf("q!%s!%d", v.Name, vc.fresh)
		// bound variables shadow locals and parameters: "$local:" entries are looked up first
		vars["$local:"+v.Name] = Val{T: raw(name, sortS), Typ: typ}
		decl = append(decl, fmt.Sprintf("(%s %s)", name, sortS))
		if typ != nil && vc.ar.Mode == ModeInt {
			if k, ok := intKindOf(typ); ok && v.Type != "int" {
				ranges = append(ranges, vc.ar.InRange(raw(name, sortS), k))
			}
		}
	}
	inner := env.with(vars)
	if q.Forall {
		for _, v := range q.Vars {
			inner.univ = append(append([]Val{}, inner.univ...), vars["$local:"+v.Name])
		}
	}
	// Existential as a hypothesis (or universal as a goal is left alone): name the witness by a
	// skolem function of the enclosing universal variables, and remember it for this quantifier.
	if !q.Forall && env.pol > 0 && len(q.Vars) == 1 && vc.dry == 0 {
		v := q.Vars[0]
		bv := vars["$local:"+v.Name]
		vc.fresh++
		sk := fmt.Sprintf("sk!%s!%d", v.Name, vc.fresh)
		var argSorts, args []string
		for _, u := range env.univ {
			argSorts = append(argSorts, u.T.Sort)
			args = append(args, u.T.S)
		}
		vc.decls = append(vc.decls, fmt.Sprintf("(declare-fun %s (%s) %s)", sk, strings.Join(argSorts, " "), bv.T.Sort))
		t := sk
		if len(args) > 0 {
			t = "(" + sk + " " + strings.Join(args, " ") + ")"
		}
		vars2 := map[string]Val{"$local:" + v.Name: {T: raw(t, bv.T.Sort), Typ: bv.Typ}}
		body, err := x.evalBool(q.Body, env.with(vars2))
		if err != nil {
			return Val{}, err
		}
		if len(ranges) > 0 {
			sub := strings.ReplaceAll(And(ranges...).S, bv.T.S, t)
			body = And(raw(sub, SBool), body)
		}
		skKey := v.Name + ":" + bv.T.Sort + ":" + strings.Join(argSorts, " ")
		vc.lastSk[skKey] = append(vc.lastSk[skKey], skolem{name: sk, arity: len(args), sorts: strings.Join(argSorts, " ")})
		return Val{T: body, Typ: types.Typ[types.Bool]}, nil
	}
	body, err := x.evalBool(q.Body, inner)
	if err != nil {
		return Val{}, err
	}
	// Existential as a goal: offer the witness recorded when the same existential was last assumed.
	var candidate *Term
	if !q.Forall && env.pol < 0 && len(q.Vars) == 1 {
		v := q.Vars[0]
		bv := vars["$local:"+v.Name]
		var argSorts, args []string
		for _, u := range env.univ {
			argSorts = append(argSorts, u.T.Sort)
			args = append(args, u.T.S)
		}
		skKey := v.Name + ":" + bv.T.Sort + ":" + strings.Join(argSorts, " ")
		sks := vc.lastSk[skKey]
		if len(sks) > 3 {
			sks = sks[len(sks)-3:]
		}
		var cands []Term
		for _, skm := range sks {
			t := skm.name
			if len(args) > 0 {
				t = "(" + skm.name + " " + strings.Join(args, " ") + ")"
			}
			cb, err := x.evalBool(q.Body, env.with(map[string]Val{"$local:" + v.Name: {T: raw(t, bv.T.Sort), Typ: bv.Typ}}))
			if err == nil {
				if len(ranges) > 0 {
					cb = And(raw(strings.ReplaceAll(And(ranges...).S, bv.T.S, t), SBool), cb)
				}
				cands = append(cands, cb)
			}
		}
		if len(cands) > 0 {
			c := Or(cands...)
			candidate = &c
		}
	}
	if len(ranges) > 0 {
		if q.Forall {
			body = Implies(And(ranges...), body)
		} else {
			body = And(append(ranges, body)...)
		}
	}
	var pats []string
	for _, tr := range q.Trig {
		var ps []string
		for _, te := range tr {
			tv, err := x.evalSpec(te, inner)
			if err != nil {
				return Val{}, err
			}
			ps = append(ps, tv.T.S)
		}
		pats = append(pats, ":pattern ("+strings.Join(ps, " ")+")")
	}
	kw := "forall"
	if !q.Forall {
		kw = "exists"
	}
	var s string
	if len(pats) > 0 {
		s = fmt.Sprintf("(%s (%s) (! %s %s))", kw, strings.Join(decl, " "), body.S, strings.Join(pats, " "))
	} else {
		s = fmt.Sprintf("(%s (%s) %s)", kw, strings.Join(decl, " "), body.S)
	}
	if body.B != 0 {
		return Val{T: body, Typ: types.Typ[types.Bool]}, nil
	}
	if candidate != nil {
		return Val{T: Or(*candidate, raw(s, SBool)), Typ: types.Typ[types.Bool]}, nil
	}
	return Val{T: raw(s, SBool), Typ: types.Typ[types.Bool]}, nil
}

var convRe = regexp.MustCompile(`^u?int(8|16|32|64)?$|^byte$|^uintptr$`)

func (x *Exec) evalCall(c *ECall, env *SpecEnv) (Val, error) {
	vc := x.vc
	idxS := vc.ar.IdxSort()
	argN := func(n int) error {
		if len(c.Args) != n {
			return fmt.Errorf("%s expects %d argument(s)", c.Fun, n)
		}
		return nil
	}
	switch c.Fun {
	case "old":
		if err := argN(1); err != nil {
			return Val{}, err
		}
		if env.old == nil {
			return Val{}, fmt.Errorf("old() not available here")
		}
		n := *env
		n.st = env.old
		return x.evalSpec(c.Args[0], &n)
	case "len", "cap":
		if err := argN(1); err != nil {
			return Val{}, err
		}
		v, err := x.evalSpec(c.Args[0], env)
		if err != nil {
			return Val{}, err
		}
		switch {
		case v.T.Sort == "Slice":
			return Val{T: app(idxS, "s-"+c.Fun, v.T), Typ: types.Typ[types.Int]}, nil
		case v.T.Sort == "Str":
			return Val{T: app(idxS, "gs.len", v.T), Typ: types.Typ[types.Int]}, nil
		case v.Typ != nil:
			if at, ok := v.Typ.Underlying().(*types.Array); ok {
				return Val{T: vc.idx(at.Len()), Typ: types.Typ[types.Int]}, nil
			}
			if mt, ok := v.Typ.Underlying().(*types.Map); ok {
				fn := "map.len"
				vc.decl("fun:"+fn, fmt.Sprintf("(declare-fun %s (%s) %s)", fn, arraySort(vc.sortOf(mt.Key()), SBool), idxS))
				hk, hs, _, _ := vc.mapKeys(mt)
				return Val{T: app(idxS, fn, Select(vc.heapGet(env.st, hk, hs), v.T)), Typ: types.Typ[types.Int]}, nil
			}
		}
		return Val{}, fmt.Errorf("len of sort %s", v.T.Sort)
	case "toiface":
		// toiface(p): the interface value holding the (typed) value p
		if err := argN(1); err != nil {
			return Val{}, err
		}
		v, err := x.evalSpec(c.Args[0], env)
		if err != nil {
			return Val{}, err
		}
		if v.Typ == nil || v.Loc != nil {
			return Val{}, fmt.Errorf("toiface() needs a typed value")
		}
		return Val{T: vc.makeIface(v.T, v.Typ)}, nil
	case "sliceof":
		// sliceof(T, s): view the (untyped) slice value s as a []T
		if err := argN(2); err != nil {
			return Val{}, err
		}
		ty, err := x.typeExpr(c.Args[0], env)
		if err != nil {
			return Val{}, err
		}
		v, err := x.evalSpec(c.Args[1], env)
		if err != nil {
			return Val{}, err
		}
		if v.T.Sort != "Slice" {
			return Val{}, fmt.Errorf("sliceof() needs a slice value")
		}
		return Val{T: v.T, Typ: types.NewSlice(ty)}, nil
	case "hasmap":
		// hasmap(m): the key set of map m as an SMT array key -> Bool (empty for a nil map is not
		// implied: callers state m != nil where it matters)
		if err := argN(1); err != nil {
			return Val{}, err
		}
		m, err := x.evalSpec(c.Args[0], env)
		if err != nil {
			return Val{}, err
		}
		if m.Typ == nil {
			return Val{}, fmt.Errorf("hasmap() needs a map")
		}
		mt, ok := m.Typ.Underlying().(*types.Map)
		if !ok {
			return Val{}, fmt.Errorf("hasmap() needs a map")
		}
		hk, hs, _, _ := vc.mapKeys(mt)
		return Val{T: Select(vc.heapGet(env.st, hk, hs), m.T)}, nil
	case "valmap":
		// valmap(m): the raw value array of map m (key -> stored value; meaningful where hasmap(m) holds)
		if err := argN(1); err != nil {
			return Val{}, err
		}
		m, err := x.evalSpec(c.Args[0], env)
		if err != nil {
			return Val{}, err
		}
		if m.Typ == nil {
			return Val{}, fmt.Errorf("valmap() needs a map")
		}
		mt, ok := m.Typ.Underlying().(*types.Map)
		if !ok {
			return Val{}, fmt.Errorf("valmap() needs a map")
		}
		_, _, vk, vs := vc.mapKeys(mt)
		return Val{T: Select(vc.heapGet(env.st, vk, vs), m.T), Typ: types.NewArray(mt.Elem(), 0)}, nil
	case "has":
		if err := argN(2); err != nil {
			return Val{}, err
		}
		m, err := x.evalSpec(c.Args[0], env)
		if err != nil {
			return Val{}, err
		}
		mt, ok := m.Typ.Underlying().(*types.Map)
		if !ok {
			return Val{}, fmt.Errorf("has() needs a map")
		}
		k, err := x.evalSpecHint(c.Args[1], env, mt.Key(), vc.sortOf(mt.Key()))
		if err != nil {
			return Val{}, err
		}
		hk, hs, _, _ := vc.mapKeys(mt)
		return Val{T: And(Not(Eq(m.T, intLit64(0))), Select(Select(vc.heapGet(env.st, hk, hs), m.T), k.T)), Typ: types.Typ[types.Bool]}, nil
	case "allocated":
		// allocated(x): the reference of x is allocated in the current state (so it differs from
		// everything allocated later)
		if err := argN(1); err != nil {
			return Val{}, err
		}
		v, err := x.evalSpec(c.Args[0], env)
		if err != nil {
			return Val{}, err
		}
		ref := v.T
		if v.T.Sort == "Slice" {
			ref = app(SInt, "s-ref", v.T)
		}
		return Val{T: vc.isAlloc(env.st, ref), Typ: types.Typ[types.Bool]}, nil
	case "fresh":
		// fresh(x): reference of x was not allocated at entry
		if err := argN(1); err != nil {
			return Val{}, err
		}
		v, err := x.evalSpec(c.Args[0], env)
		if err != nil {
			return Val{}, err
		}
		ref := v.T
		if v.T.Sort == "Slice" {
			ref = app(SInt, "s-ref", v.T)
		}
		if env.old == nil {
			return Val{}, fmt.Errorf("fresh() needs an entry state")
		}
		return Val{T: Not(vc.isAlloc(env.old, ref)), Typ: types.Typ[types.Bool]}, nil
	case "typeof":
		if err := argN(1); err != nil {
			return Val{}, err
		}
		v, err := x.evalSpec(c.Args[0], env)
		if err != nil {
			return Val{}, err
		}
		if v.T.Sort != "Iface" {
			return Val{}, fmt.Errorf("typeof needs an interface value")
		}
		return Val{T: app(SInt, "i-typ", v.T)}, nil
	case "ivalue":
		if err := argN(1); err != nil {
			return Val{}, err
		}
		v, err := x.evalSpec(c.Args[0], env)
		if err != nil {
			return Val{}, err
		}
		return Val{T: app(SInt, "i-val", v.T)}, nil
	case "typeid":
		// typeid(T) or typeid(*T): type id constant of a named type in the package
		if err := argN(1); err != nil {
			return Val{}, err
		}
		ty, err := x.typeExpr(c.Args[0], env)
		if err != nil {
			return Val{}, err
		}
		return Val{T: vc.tid(ty)}, nil
	case "ref":
		// ref(x): the reference of a pointer / slice value as a mathematical integer
		if err := argN(1); err != nil {
			return Val{}, err
		}
		v, err := x.evalSpec(c.Args[0], env)
		if err != nil {
			return Val{}, err
		}
		if v.T.Sort == "Slice" {
			return Val{T: app(SInt, "s-ref", v.T)}, nil
		}
		if v.Loc != nil {
			t, err := vc.locRef(v.Loc)
			return Val{T: t}, err
		}
		return Val{T: v.T}, nil
	case "store":
		// store(A, i, v): functional array update
		if err := argN(3); err != nil {
			return Val{}, err
		}
		a, err := x.evalSpec(c.Args[0], env)
		if err != nil {
			return Val{}, err
		}
		if !strings.HasPrefix(a.T.Sort, "(Array ") {
			return Val{}, fmt.Errorf("store() needs an array")
		}
		ks, vs := arraySorts(a.T.Sort)
		i, err := x.evalSpecHint(c.Args[1], env, nil, ks)
		if err != nil {
			return Val{}, err
		}
		v, err := x.evalSpecHint(c.Args[2], env, nil, vs)
		if err != nil {
			return Val{}, err
		}
		if i.T.Sort != ks || v.T.Sort != vs {
			return Val{}, fmt.Errorf("store(): sorts %s,%s do not match %s", i.T.Sort, v.T.Sort, a.T.Sort)
		}
		return Val{T: Store(a.T, i.T, v.T), Typ: a.Typ}, nil
	case "owner":
		// owner(p): the reference of the heap object an (interior) pointer points into
		if err := argN(1); err != nil {
			return Val{}, err
		}
		v, err := x.evalSpec(c.Args[0], env)
		if err != nil {
			return Val{}, err
		}
		if v.Loc != nil {
			if v.Loc.Kind == LCell {
				return Val{}, fmt.Errorf("owner() of a pointer to a local")
			}
			return Val{T: v.Loc.Ref}, nil
		}
		return Val{T: v.T}, nil
	case "addr":
		// addr(x.f): reference term of the embedded struct field f of x
		if err := argN(1); err != nil {
			return Val{}, err
		}
		l, err := x.evalLoc(c.Args[0], env)
		if err != nil {
			return Val{}, err
		}
		t, err := vc.locRef(l)
		return Val{T: t}, err
	case "deref":
		// deref(T, p): the value of the heap cell of type T that pointer p (a reference) points to
		if err := argN(2); err != nil {
			return Val{}, err
		}
		ty, err := x.typeExpr(c.Args[0], env)
		if err != nil {
			return Val{}, err
		}
		pv, err := x.evalSpec(c.Args[1], env)
		if err != nil {
			return Val{}, err
		}
		if pv.Loc != nil {
			return vc.loadLoc(env.st, pv.Loc)
		}
		if pv.T.Sort != SInt {
			return Val{}, fmt.Errorf("deref() needs a pointer")
		}
		key, hs := vc.cellKey(ty)
		return Val{T: Select(vc.heapGet(env.st, key, hs), pv.T), Typ: ty}, nil
	case "as":
		// as(T, x): the dynamic value of interface x viewed as pointer type T (meaningful when typeof(x) == typeid(T))
		if err := argN(2); err != nil {
			return Val{}, err
		}
		ty, err := x.typeExpr(c.Args[0], env)
		if err != nil {
			return Val{}, err
		}
		v, err := x.evalSpec(c.Args[1], env)
		if err != nil {
			return Val{}, err
		}
		if v.T.Sort != "Iface" {
			return Val{}, fmt.Errorf("as() needs an interface value")
		}
		if !pointerShaped(ty) {
			_, u := vc.boxFn(ty)
			return Val{T: app(vc.sortOf(ty), u, app(SInt, "i-val", v.T)), Typ: ty}, nil
		}
		return Val{T: app(SInt, "i-val", v.T), Typ: ty}, nil
	case "str":
		// str(bs): string(bs)
		if err := argN(1); err != nil {
			return Val{}, err
		}
		a, err := x.evalSpec(c.Args[0], env)
		if err != nil {
			return Val{}, err
		}
		if a.T.Sort == "Str" {
			return a, nil
		}
		if a.T.Sort != "Slice" {
			return Val{}, fmt.Errorf("str() needs a byte slice")
		}
		return Val{T: vc.bytesToStrPure(env.st, a.T), Typ: types.Typ[types.String]}, nil
	case "bseq":
		// bseq(array, off, len): abstract byte string held in an array range
		if err := argN(3); err != nil {
			return Val{}, err
		}
		a, err := x.evalSpec(c.Args[0], env)
		if err != nil {
			return Val{}, err
		}
		o, err := x.evalSpecHint(c.Args[1], env, types.Typ[types.Int], "")
		if err != nil {
			return Val{}, err
		}
		n, err := x.evalSpecHint(c.Args[2], env, types.Typ[types.Int], "")
		if err != nil {
			return Val{}, err
		}
		as := arraySort(idxS, vc.ar.Sort(IntKind{8, false}))
		if a.T.Sort != as {
			return Val{}, fmt.Errorf("bseq() needs a byte array, got %s", a.T.Sort)
		}
		vc.declBseq()
		return Val{T: app("BSeq", "bseq", a.T, o.T, n.T)}, nil
	case "arr":
		// arr(bs): the backing array of a slice as an SMT array (index = absolute position)
		if err := argN(1); err != nil {
			return Val{}, err
		}
		v, err := x.evalSpec(c.Args[0], env)
		if err != nil {
			return Val{}, err
		}
		if v.T.Sort != "Slice" {
			if v.Typ != nil {
				if p, ok := v.Typ.Underlying().(*types.Pointer); ok {
					if at, ok := p.Elem().Underlying().(*types.Array); ok && v.Loc == nil {
						key, hs := vc.elemKey(at.Elem())
						return Val{T: Select(vc.heapGet(env.st, key, hs), v.T)}, nil
					}
				}
			}
			return Val{}, fmt.Errorf("arr() needs a slice or array pointer")
		}
		et := types.Type(types.Typ[types.Uint8])
		if v.Typ != nil {
			et = v.Typ.Underlying().(*types.Slice).Elem()
		}
		key, hs := vc.elemKey(et)
		return Val{T: Select(vc.heapGet(env.st, key, hs), app(SInt, "s-ref", v.T))}, nil
	case "off":
		v, err := x.evalSpec(c.Args[0], env)
		if err != nil {
			return Val{}, err
		}
		return Val{T: app(idxS, "s-off", v.T), Typ: types.Typ[types.Int]}, nil
	case "bytes_eq":
		if err := argN(2); err != nil {
			return Val{}, err
		}
		a, err := x.evalSpec(c.Args[0], env)
		if err != nil {
			return Val{}, err
		}
		b, err := x.evalSpec(c.Args[1], env)
		if err != nil {
			return Val{}, err
		}
		return Val{T: vc.bytesEqual(env.st, a.T, b.T), Typ: types.Typ[types.Bool]}, nil
	case "seq":
		// seq(bs): abstract value of the byte string held by a slice
		if err := argN(1); err != nil {
			return Val{}, err
		}
		a, err := x.evalSpec(c.Args[0], env)
		if err != nil {
			return Val{}, err
		}
		return Val{T: vc.byteSeq(env.st, a.T)}, nil
	case "big":
		// big(p): mathematical value of *big.Int p
		if err := argN(1); err != nil {
			return Val{}, err
		}
		a, err := x.evalSpec(c.Args[0], env)
		if err != nil {
			return Val{}, err
		}
		if a.Loc != nil {
			// pointer to a big.Int embedded by value (x.f.Int): its abstract reference
			t, err := vc.locRef(a.Loc)
			if err != nil {
				return Val{}, err
			}
			return Val{T: vc.bigVal(env.st, t)}, nil
		}
		return Val{T: vc.bigVal(env.st, a.T)}, nil
	case "min", "max":
		if err := argN(2); err != nil {
			return Val{}, err
		}
		a, err := x.evalSpec(c.Args[0], env)
		if err != nil {
			return Val{}, err
		}
		b, err := x.evalSpecHint(c.Args[1], env, a.Typ, a.T.Sort)
		if err != nil {
			return Val{}, err
		}
		k, _ := x.kindOfVal(a)
		cmp := vc.ar.Cmp("<=", a.T, b.T, k)
		if c.Fun == "max" {
			cmp = vc.ar.Cmp(">=", a.T, b.T, k)
		}
		return Val{T: Ite(cmp, a.T, b.T), Typ: a.Typ}, nil
	case "mathint":
		// mathematical integer view of a machine integer (Int mode: identity)
		if err := argN(1); err != nil {
			return Val{}, err
		}
		a, err := x.evalSpec(c.Args[0], env)
		if err != nil {
			return Val{}, err
		}
		if vc.ar.Mode == ModeInt {
			return Val{T: a.T}, nil
		}
		return Val{}, fmt.Errorf("mathint() is only available with arith int")
	case "ghost":
		if err := argN(1); err != nil {
			return Val{}, err
		}
		id, ok := c.Args[0].(*EIdent)
		if !ok {
			return Val{}, fmt.Errorf("ghost(name)")
		}
		g, ok := env.st.ghost[id.Name]
		if !ok {
			gs, ok2 := x.eng.ghostSorts[id.Name]
			if !ok2 {
				return Val{}, fmt.Errorf("unknown ghost variable %s", id.Name)
			}
			g = x.vc.ghostInitial(id.Name, x.eng.smtSort(gs, vc.ar.Mode))
		}
		return Val{T: g}, nil
	}
	if convRe.MatchString(c.Fun) || c.Fun == "bool" {
		if err := argN(1); err != nil {
			return Val{}, err
		}
		to := basicByName[c.Fun]
		tk, _ := intKindOf(to)
		if isLiteral(c.Args[0]) {
			return x.evalSpecHint(c.Args[0], env, to, "")
		}
		a, err := x.evalSpec(c.Args[0], env)
		if err != nil {
			return Val{}, err
		}
		fk, ok := x.kindOfVal(a)
		if !ok {
			return Val{}, fmt.Errorf("conversion of non-integer to %s", c.Fun)
		}
		if a.Typ == nil && vc.ar.Mode == ModeBV {
			// untyped BV (result of an SMT function): reinterpret at same width or zero-extend
			if fk.W == tk.W {
				return Val{T: Term{S: a.T.S, Sort: a.T.Sort, C: a.T.C}, Typ: to}, nil
			}
		}
		if a.Typ == nil && vc.ar.Mode == ModeInt {
			// mathematical value: typed view, wrap semantics
			return Val{T: vc.ar.Convert(a.T, IntKind{tk.W * 4, true}, tk), Typ: to}, nil
		}
		return Val{T: vc.ar.Convert(a.T, fk, tk), Typ: to}, nil
	}
	// spec macro
	if sf := x.eng.specFuncs[c.Fun]; sf != nil {
		if len(sf.Params) != len(c.Args) {
			return Val{}, fmt.Errorf("%s expects %d arguments", c.Fun, len(sf.Params))
		}
		vars := map[string]Val{}
		for i, a := range c.Args {
			v, err := x.evalSpec(a, env)
			if err != nil {
				return Val{}, err
			}
			vars["$local:"+sf.Params[i]] = v
		}
		n := *env
		n.vars = map[string]Val{}
		for k, v := range env.vars {
			if strings.HasPrefix(k, "q!") {
				n.vars[k] = v
			}
		}
		for k, v := range vars {
			n.vars[k] = v
		}
		n.inCall = true
		if p := x.eng.pkgByPath(sf.Pkg); p != nil {
			n.pkg = p
		}
		r, err := x.evalSpec(sf.Body.Expr, &n)
		if err != nil {
			return Val{}, fmt.Errorf("in spec %s: %w", c.Fun, err)
		}
		return r, nil
	}
	// raw SMT function
	if sig, ok := x.eng.smtFuns[c.Fun]; ok {
		if len(sig.args) != len(c.Args) {
			return Val{}, fmt.Errorf("%s expects %d arguments", c.Fun, len(sig.args))
		}
		var args []Term
		for i, a := range c.Args {
			want := x.eng.smtSort(sig.args[i], vc.ar.Mode)
			v, err := x.evalSpecHint(a, env, nil, want)
			if err != nil {
				return Val{}, err
			}
			if v.T.Sort != want {
				return Val{}, fmt.Errorf("%s: argument %d has sort %s, expected %s", c.Fun, i, v.T.Sort, want)
			}
			args = append(args, v.T)
		}
		x.vc.useSmt(c.Fun)
		return Val{T: app(x.eng.smtSort(sig.res, vc.ar.Mode), c.Fun, args...)}, nil
	}
	return Val{}, fmt.Errorf("unknown function %q in spec", c.Fun)
}

func (x *Exec) typeExpr(e Expr, env *SpecEnv) (types.Type, error) {
	ptr := false
	if u, ok := e.(*EUnary); ok && u.Op == "*" {
		ptr = true
		e = u.X
	}
	var obj types.Object
	switch t := e.(type) {
	case *EIdent:
		if strings.HasPrefix(t.Name, "slice_") {
			// slice_T: the type []T
			et, err := x.typeExpr(&EIdent{t.Name[6:]}, env)
			if err != nil {
				return nil, err
			}
			return types.NewSlice(et), nil
		}
		if strings.HasPrefix(t.Name, "ptr_") {
			ptr = true
			t = &EIdent{t.Name[4:]}
		}
		if b, ok := basicByName[t.Name]; ok {
			if ptr {
				return types.NewPointer(b), nil
			}
			return b, nil
		}
		if env.pkg != nil {
			obj = env.pkg.Scope().Lookup(t.Name)
		}
	case *ESel:
		if id, ok := t.X.(*EIdent); ok {
			if p := x.importedPkg(env, id.Name); p != nil {
				name := t.Name
				if strings.HasPrefix(name, "ptr_") {
					ptr = true
					name = name[4:]
				}
				obj = p.Scope().Lookup(name)
			}
		}
	}
	tn, ok := obj.(*types.TypeName)
	if !ok {
		return nil, fmt.Errorf("type name expected")
	}
	if ptr {
		return types.NewPointer(tn.Type()), nil
	}
	return tn.Type(), nil
}

func (vc *VC) ghostInitial(name, sort string) Term {
	n := "G0_" + sanitize(name)
	vc.decl("ghost:"+name, fmt.Sprintf("(declare-const %s %s)", n, sort))
	return raw(n, sort)
}

// byteSeq abstracts the contents of a byte slice as a value of sort BSeq.
func (vc *VC) byteSeq(st *State, s Term) Term {
	idx := vc.ar.IdxSort()
	vc.declBseq()
	key, hs := vc.elemKey(types.Typ[types.Uint8])
	arr := Select(vc.heapGet(st, key, hs), app(SInt, "s-ref", s))
	r := app("BSeq", "bseq", arr, app(idx, "s-off", s), app(idx, "s-len", s))
	return r
}

// declBseq declares the abstraction of byte strings: bseq(array, off, len) with its length,
// and a canonical empty string (so that equality of abstractions is bytes.Equal).
func (vc *VC) declBseq() {
	idx := vc.ar.IdxSort()
	as := arraySort(idx, vc.ar.Sort(IntKind{8, false}))
	z := vc.idx(0).S
	ge := "(>= n " + z + ")"
	if vc.ar.Mode == ModeBV {
		ge = "(bvsge n " + z + ")"
	}
	vc.decl("fun:bseq", fmt.Sprintf("(declare-fun bseq (%s %s %s) BSeq)\n(declare-fun bseq.len (BSeq) %s)\n(declare-const bseq.empty BSeq)\n"+
		"(assert (forall ((a %s) (o %s) (n %s)) (! (=> %s (= (bseq.len (bseq a o n)) n)) :pattern ((bseq a o n)))))\n"+
		"(assert (forall ((a %s) (o %s)) (! (= (bseq a o %s) bseq.empty) :pattern ((bseq a o %s)))))\n(assert (= (bseq.len bseq.empty) %s))",
		as, idx, idx, idx, as, idx, idx, ge, as, idx, z, z, z))
	if vc.bseqExt {
		// opt bseq-ext: extensionality of the abstraction (two ranges with equal bytes are the
		// same byte string); opt-in because the pairwise pattern is costly
		lo, lt, sa, sb := "(<= "+z+" i)", "(< i n)", "(select a (+ o i))", "(select b (+ p i))"
		if vc.ar.Mode == ModeBV {
			lo, lt, sa, sb = "(bvsle "+z+" i)", "(bvslt i n)", "(select a (bvadd o i))", "(select b (bvadd p i))"
		}
		vc.decl("fun:bseq-ext", fmt.Sprintf("(assert (forall ((a %s) (o %s) (b %s) (p %s) (n %s)) (! (=> (forall ((i %s)) (=> (and %s %s) (= %s %s))) (= (bseq a o n) (bseq b p n))) :pattern ((bseq a o n) (bseq b p n)))))",
			as, idx, as, idx, idx, idx, lo, lt, sa, sb))
	}
}

// bytesEqual: bytes.Equal(a, b) as equality of the abstract byte strings (length included).
func (vc *VC) bytesEqual(st *State, a, b Term) Term {
	return Eq(vc.byteSeq(st, a), vc.byteSeq(st, b))
}

func (vc *VC) bigVal(st *State, ref Term) Term {
	h := vc.heapGet(st, "big.Int", arraySort(SInt, SInt))
	return Select(h, ref)
}

var _ = token.NoPos

// evalLoc evaluates x.f (f a field) to the location of the field.
func (x *Exec) evalLoc(e Expr, env *SpecEnv) (*Loc, error) {
	vc := x.vc
	sel, ok := e.(*ESel)
	if !ok {
		// an identifier bound to an interior pointer
		v, err := x.evalSpec(e, env)
		if err != nil {
			return nil, err
		}
		if v.Loc != nil {
			return v.Loc, nil
		}
		return nil, fmt.Errorf("not a location")
	}
	var base Val
	if inner, ok := sel.X.(*ESel); ok {
		// try as location first (nested embedded structs)
		if l, err := x.evalLoc(inner, env); err == nil {
			if _, isStruct := vc.locType(l).Underlying().(*types.Struct); isStruct {
				base = Val{Loc: l}
			}
		}
	}
	if base.Loc == nil {
		v, err := x.evalSpec(sel.X, env)
		if err != nil {
			return nil, err
		}
		base = v
	}
	var bt types.Type
	if base.Loc != nil {
		bt = types.NewPointer(vc.locType(base.Loc))
	} else {
		bt = base.Typ
	}
	if bt == nil {
		return nil, fmt.Errorf("untyped base")
	}
	obj, index, _ := types.LookupFieldOrMethod(bt, true, nil, sel.Name)
	if obj == nil {
		if n := namedOf(bt); n != nil && n.Obj().Pkg() != nil {
			obj, index, _ = types.LookupFieldOrMethod(bt, true, n.Obj().Pkg(), sel.Name)
		}
	}
	if obj == nil {
		return nil, fmt.Errorf("no field %s", sel.Name)
	}
	p, ok := bt.Underlying().(*types.Pointer)
	if !ok {
		return nil, fmt.Errorf("base of %s is not a pointer", sel.Name)
	}
	curT := p.Elem()
	var loc *Loc
	if base.Loc != nil {
		loc = base.Loc
	}
	for i, fi := range index {
		su, ok := curT.Underlying().(*types.Struct)
		if !ok {
			return nil, fmt.Errorf("selection through non-struct")
		}
		ft := su.Field(fi).Type()
		if loc == nil {
			key, _ := vc.fieldKey(curT, fi)
			loc = &Loc{Kind: LField, Key: key, Ref: base.T, RootT: ft}
		} else {
			loc = loc.with(PathEl{Field: fi, Name: su.Field(fi).Name(), From: curT})
		}
		if i < len(index)-1 {
			if pp, isPtr := ft.Underlying().(*types.Pointer); isPtr {
				v, err := vc.loadLoc(env.st, loc)
				if err != nil {
					return nil, err
				}
				base = Val{T: v.T, Typ: ft}
				loc = nil
				curT = pp.Elem()
				continue
			}
		}
		curT = ft
	}
	return loc, nil
}

func instrIndex(in ssa.Instruction) int {
	for i, x := range in.Block().Instrs {
		if x == in {
			return i
		}
	}
	return -1
}
