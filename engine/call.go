package main

import (
	"fmt"
	"go/token"
	"go/types"
	"sort"
	"strings"

	"golang.org/x/tools/go/ssa"
)

type modTarget struct {
	key  string
	sort string
	ref  Term
	all  bool // every reference of this key
	path []PathEl
	leaf types.Type
}

func shortFuncName(fn *ssa.Function) string {
	if fn == nil {
		return "?"
	}
	if recv := fn.Signature.Recv(); recv != nil {
		if n := namedOf(recv.Type()); n != nil {
			return n.Obj().Name() + "." + fn.Name()
		}
	}
	return fn.Name()
}

// callOrdinal numbers the call sites of one callee within a frame in the order in which they are
// first reached; a site that is executed again (loop probing runs, the cut loop body) keeps its number.
func (x *Exec) callOrdinal(fr *frame, name string, pos token.Pos) int {
	key := fr.prefix + "call:" + name
	if x.sitePos == nil {
		x.sitePos = map[string]map[token.Pos]int{}
	}
	m := x.sitePos[key]
	if m == nil {
		m = map[token.Pos]int{}
		x.sitePos[key] = m
	}
	if n, ok := m[pos]; ok && pos.IsValid() {
		return n
	}
	n := len(m)
	if !pos.IsValid() {
		x.siteSeq[key]++
		return 1000 + x.siteSeq[key]
	}
	m[pos] = n
	return n
}

func (x *Exec) call(fr *frame, st *State, c *ssa.CallCommon, pos token.Pos, instr ssa.Instruction) (Val, error) {
	vc := x.vc
	var args []Val
	for _, a := range c.Args {
		v, err := x.val(st, a)
		if err != nil {
			return Val{}, err
		}
		args = append(args, v)
	}
	sig := c.Signature()
	if c.IsInvoke() {
		recv, err := x.val(st, c.Value)
		if err != nil {
			return Val{}, err
		}
		in := namedOf(c.Value.Type())
		iname := c.Value.Type().String()
		if in != nil {
			iname = typeKey(in)
		}
		full := "(" + iname + ")." + c.Method.Name()
		x.safetyObl(fr, st, "nil", pos, Not(Eq(app(SInt, "i-typ", recv.T), intLit64(0))), "method call on nil interface: "+c.Method.Name())
		if fc := x.eng.ifaceContract(iname, c.Method.Name()); fc != nil {
			return x.applyContract(fr, st, fc, sig, append([]Val{recv}, args...), pos, nil)
		}
		// the method may come from an embedded interface that carries the contract
		if fc := x.eng.embeddedIfaceContract(c.Value.Type(), c.Method.Name(), 0); fc != nil {
			return x.applyContract(fr, st, fc, sig, append([]Val{recv}, args...), pos, nil)
		}
		return x.externOrHavoc(fr, st, full, sig, append([]Val{recv}, args...), pos)
	}
	switch callee := c.Value.(type) {
	case *ssa.Builtin:
		return x.builtin(fr, st, callee, c, args, pos, instr)
	case *ssa.Function:
		return x.callStatic(fr, st, callee, args, nil, pos)
	case *ssa.MakeClosure:
		cv, err := x.val(st, callee)
		if err != nil {
			return Val{}, err
		}
		return x.callStatic(fr, st, cv.Clo.Fn, args, cv.Clo.Bindings, pos)
	}
	if u, ok := c.Value.(*ssa.UnOp); ok && u.Op == token.MUL {
		// a call through a package-level function variable (log.Panicf = logger.Panicf, ...): the
		// extern categories name such variables like functions
		if g, ok := u.X.(*ssa.Global); ok && g.Pkg != nil {
			full := g.Pkg.Pkg.Path() + "." + g.Name()
			if cat, ok := x.eng.externCat(full); ok {
				return x.applyExtern(fr, st, cat, full, sig, args, pos)
			}
		}
	}
	fv, err := x.val(st, c.Value)
	if err != nil {
		return Val{}, err
	}
	if fv.Clo != nil {
		return x.callStatic(fr, st, fv.Clo.Fn, args, fv.Clo.Bindings, pos)
	}
	x.safetyObl(fr, st, "nil", pos, Not(Eq(fv.T, intLit64(0))), "call of nil function")
	if x.fc != nil && fr.depth == 0 && len(x.fc.CallPre["dyn"]) > 0 {
		// rules for calls through a function value ("callpre dyn: ..."): evaluated in the caller's state
		ord := x.callOrdinal(fr, "dyn", pos)
		site := fmt.Sprintf("%scall dyn#%d", fr.prefix, ord)
		p := x.pos(pos)
		pre := st.clone()
		if x.cpHit == nil {
			x.cpHit = map[string]bool{}
		}
		x.cpHit["dyn"] = true
		for j, cp := range x.fc.CallPre["dyn"] {
			cenv := x.specEnv(fr, pre, nil)
			cenv.pol = -1
			t, err := x.evalBool(cp.Expr, cenv)
			if err != nil {
				return Val{}, fmt.Errorf("%s:%d: callpre dyn: %w", cp.File, cp.Line, err)
			}
			if j == 0 && vc.dry == 0 {
				vc.obls = append(vc.obls, &Obligation{Name: fmt.Sprintf("cover/%s/dyn", site), Kind: "cover", Goal: Not(st.pc), TraceLen: len(vc.trace), Pos: p, ExpectSat: true,
					Text: "call site reachable: dynamic call", Func: x.fc.Key(), Claimed: true})
			}
			x.vc.oblige("call-pre", fmt.Sprintf("%s/callpre#%d", site, j), st.pc, t, p, fmt.Sprintf("rule at the call through a function value: %s (%s:%d)", cp.Text, shortFile(p.Filename), p.Line))
		}
	}
	vc.noteHavoc("dynamic call at " + x.pos(pos).String())
	return x.havocCall(st, sig, "dyn"), nil
}

func (vc *VC) noteHavoc(s string) {
	if vc.dry == 0 {
		vc.dropped["havoc: "+s] = true
	}
}

func (x *Exec) callStatic(fr *frame, st *State, fn *ssa.Function, args []Val, bindings []Val, pos token.Pos) (Val, error) {
	full := fn.String()
	if fn.Synthetic != "" && fn.Blocks != nil && (strings.HasPrefix(fn.Synthetic, "wrapper") || strings.HasPrefix(fn.Synthetic, "bound") || strings.HasPrefix(fn.Synthetic, "thunk") || strings.HasPrefix(fn.Synthetic, "instance")) {
		// wrappers are transparent
		ns, res, err := x.execFunc(fn, args, bindings, st, fr.prefix, fr.depth+1)
		if err != nil {
			return Val{}, err
		}
		*st = *ns
		return res, nil
	}
	if m := x.eng.modelFor(full); m != nil {
		return m(x, fr, st, args, pos)
	}
	short := shortFuncName(fn)
	forceInline := false
	if x.fc != nil {
		for _, n := range x.fc.Inline {
			if n == short || n == fn.Name() {
				forceInline = true
			}
		}
	}
	if fc := x.eng.contractFor(fn); fc != nil && !forceInline && fc.Opts["looponly"] == "" {
		if sym := x.eng.modeForeign(fc, x.vc.ar.Mode); sym != "" {
			// the callee's contract is written over definitions that exist only in the other
			// arithmetic mode (e.g. a bit-vector codec called from a function verified over
			// mathematical integers): it cannot be used here; the call is one of unknown effect
			x.vc.noteHavoc(full + " (contract uses " + sym + ", not available in this arithmetic mode)")
			return x.havocCall(st, fn.Signature, short), nil
		}
		return x.applyContract(fr, st, fc, fn.Signature, args, pos, fn)
	}
	if cat, ok := x.eng.externCat(full); ok {
		return x.applyExtern(fr, st, cat, full, fn.Signature, args, pos)
	}
	noInline := false
	if x.fc != nil {
		for _, n := range x.fc.NoInline {
			if n == short || n == fn.Name() {
				noInline = true
			}
		}
	}
	maxDepth := 4
	if x.fc != nil && x.fc.InlineMax >= 0 {
		maxDepth = x.fc.InlineMax
	}
	if x.fc != nil && x.fc.Opts["inline-none"] != "" && !forceInline && fn.Parent() == nil {
		// orchestrating function: callees without a contract are calls with unknown effects
		noInline = true
	}
	if fn.Blocks == nil && fn.Pkg != nil {
		fn.Pkg.Build()
	}
	if fn.Blocks != nil && !noInline && fr.depth < maxDepth && x.eng.inlinable(fn) {
		ord := x.callOrdinal(fr, short, pos)
		prefix := fmt.Sprintf("%sinl:%s#%d/", fr.prefix, short, ord)
		ns, res, err := x.execFunc(fn, args, bindings, st, prefix, fr.depth+1)
		if err != nil {
			if u, ok := err.(*Unsupported); ok && !forceInline && (x.eng.inRepo(fn) == false || strings.Contains(u.Msg, "has neither invariant nor unroll")) {
				// a callee that cannot be inlined (outside the repository, or with a loop nobody
				// annotated - typically one a change introduced) is a call of unknown effect
				x.vc.noteHavoc(full + " (not inlinable: " + u.Msg + ")")
				return x.havocCall(st, fn.Signature, short), nil
			}
			return Val{}, err
		}
		*st = *ns
		if x.vc.dry == 0 {
			x.vc.dropped["inlined: "+full] = true
		}
		return res, nil
	}
	x.vc.noteHavoc(full)
	return x.havocCall(st, fn.Signature, short), nil
}

// freshResults creates unconstrained (well-formed) results for a signature.
func (x *Exec) freshResults(st *State, sig *types.Signature, hint string) Val {
	vc := x.vc
	mk := func(t types.Type, i int) Val {
		v := vc.freshConst(fmt.Sprintf("r_%s_%d", hint, i), vc.sortOf(t))
		vc.assume(st.pc, vc.wf(st, v, t, 0))
		return Val{T: v, Typ: t}
	}
	rs := sig.Results()
	switch rs.Len() {
	case 0:
		return Val{}
	case 1:
		return mk(rs.At(0).Type(), 0)
	}
	out := Val{Typ: rs}
	for i := 0; i < rs.Len(); i++ {
		out.Tuple = append(out.Tuple, mk(rs.At(i).Type(), i))
	}
	return out
}

func (x *Exec) growAlloc(st *State) {
	vc := x.vc
	as := arraySort(SInt, SBool)
	old := vc.heapGet(st, "$alloc", as)
	nh := vc.freshConst("alloc", as)
	vc.assert(raw(fmt.Sprintf("(forall ((r Int)) (! (=> (select %s r) (select %s r)) :pattern ((select %s r))))", old.S, nh.S, nh.S), SBool))
	x.vc.setHeap(st, "$alloc", nh, -1)
}

// havocCall: the callee may do anything to the heap.
func (x *Exec) havocCall(st *State, sig *types.Signature, hint string) Val {
	vc := x.vc
	as := arraySort(SInt, SBool)
	old := vc.heapGet(st, "$alloc", as)
	// locations the function under verification declares as its own (opt protect ...): calls with
	// unknown effects are assumed not to touch them (reported as an assumption)
	type kept struct {
		t   modTarget
		old Term
	}
	var keeps []kept
	// "opt writers f, g": calls of these (unknown) functions are the ones that fill the protected
	// locations (e.g. a decoder writing into a local struct): nothing is kept across them
	isWriter := false
	if x.fc != nil && x.fc.Opts["writers"] != "" {
		for _, w := range strings.Split(x.fc.Opts["writers"], ",") {
			w = strings.TrimSpace(w)
			if w != "" && (hint == w || strings.HasSuffix(hint, "."+w)) {
				isWriter = true
			}
		}
	}
	for _, t := range x.protect {
		if isWriter {
			break
		}
		if t.all {
			// all(T.f): the whole map survives
			keeps = append(keeps, kept{t, vc.heapGet(st, t.key, t.sort)})
			continue
		}
		keeps = append(keeps, kept{t, Select(vc.heapGet(st, t.key, t.sort), t.ref)})
	}
	for _, t := range st.private {
		keeps = append(keeps, kept{t, Select(vc.heapGet(st, t.key, t.sort), t.ref)})
	}
	for _, t := range x.lateTargets(st) {
		keeps = append(keeps, kept{t, Select(vc.heapGet(st, t.key, t.sort), t.ref)})
	}
	vc.epochSeq++
	st.epoch = vc.epochSeq
	st.heap = map[string]Term{}
	for _, k := range keeps {
		if k.t.all {
			vc.assume(st.pc, Eq(vc.heapGet(st, k.t.key, k.t.sort), k.old))
			continue
		}
		vc.assume(st.pc, Eq(Select(vc.heapGet(st, k.t.key, k.t.sort), k.t.ref), k.old))
	}
	nh := vc.heapGet(st, "$alloc", as)
	vc.assert(raw(fmt.Sprintf("(forall ((r Int)) (! (=> (select %s r) (select %s r)) :pattern ((select %s r))))", old.S, nh.S, nh.S), SBool))
	// ghost state is only changed by contracts - except the ghosts the function under verification
	// declares volatile (opt volatile a, b): they mirror real state that code of unknown effect may change
	x.havocVolatile(st, nil)
	return x.freshResults(st, sig, hint)
}

// volatileGhosts: ghost variables named in "opt volatile a, b" of the function under verification.
func (x *Exec) volatileGhosts() []string {
	if x.fc == nil || x.fc.Opts["volatile"] == "" {
		return nil
	}
	var out []string
	for _, n := range strings.Split(x.fc.Opts["volatile"], ",") {
		if n = strings.TrimSpace(n); n != "" {
			out = append(out, n)
		}
	}
	return out
}

func (x *Exec) havocVolatile(st *State, except map[string]bool) {
	for _, name := range x.volatileGhosts() {
		if except[name] {
			continue
		}
		if gs, ok := x.eng.ghostSorts[name]; ok {
			st.ghost[name] = x.vc.freshConst("gv_"+name, x.eng.smtSort(gs, x.vc.ar.Mode))
		}
	}
}

func (x *Exec) externOrHavoc(fr *frame, st *State, full string, sig *types.Signature, args []Val, pos token.Pos) (Val, error) {
	if cat, ok := x.eng.externCat(full); ok {
		return x.applyExtern(fr, st, cat, full, sig, args, pos)
	}
	x.vc.noteHavoc(full)
	return x.havocCall(st, sig, "iface"), nil
}

func (x *Exec) applyExtern(fr *frame, st *State, cat, full string, sig *types.Signature, args []Val, pos token.Pos) (Val, error) {
	vc := x.vc
	if vc.dry == 0 {
		vc.trusted["extern "+cat+": "+full] = true
	}
	switch cat {
	case "noop":
		return x.freshResults(st, sig, "x"), nil
	case "pure", "pure-nonnil":
		x.growAlloc(st)
		r := x.freshResults(st, sig, "x")
		if cat == "pure-nonnil" {
			nn := func(v Val) {
				switch v.T.Sort {
				case "Iface":
					vc.assume(st.pc, Not(Eq(app(SInt, "i-typ", v.T), intLit64(0))))
				case SInt:
					vc.assume(st.pc, Not(Eq(v.T, intLit64(0))))
				}
			}
			if r.Tuple != nil {
				for _, e := range r.Tuple {
					nn(e)
				}
			} else if !r.isZero() {
				nn(r)
			}
		}
		return r, nil
	case "panic":
		if x.fc != nil && x.fc.MayPanic {
			st.pc = TFalse
			return x.freshResults(st, sig, "x"), nil
		}
		x.safetyObl(fr, st, "panic", pos, TFalse, "call to "+full+" (panics) is unreachable")
		st.pc = TFalse
		return x.freshResults(st, sig, "x"), nil
	}
	return Val{}, fmt.Errorf("unknown extern category %q", cat)
}

// ---------------------------------------------------------------------------
// applying a callee contract

func (x *Exec) contractNames(fc *FuncContract) []string {
	names := append([]string{}, fc.Params...)
	if fc.Recv != "" {
		names = append([]string{fc.RecvName}, names...)
	}
	return names
}

func (x *Exec) applyContract(fr *frame, st *State, fc *FuncContract, sig *types.Signature, args []Val, pos token.Pos, fn *ssa.Function) (Val, error) {
	vc := x.vc
	names := x.contractNames(fc)
	if len(names) != len(args) {
		return Val{}, fmt.Errorf("%s:%d: contract for %s names %d parameters, call has %d", fc.File, fc.Line, fc.Key(), len(names), len(args))
	}
	short := fc.Name
	if fc.Recv != "" {
		short = fc.Recv + "." + fc.Name
	}
	ord := x.callOrdinal(fr, short, pos)
	site := fmt.Sprintf("%scall %s#%d", fr.prefix, short, ord)
	p := x.pos(pos)
	vars := map[string]Val{}
	for i, n := range names {
		if args[i].Loc != nil && args[i].Typ != nil && (isBigIntPtr(args[i].Typ) || fc.Opts["abs-args"] != "") {
			// a pointer to a big.Int embedded by value (x.f.Int), passed to a math/big method known
			// by its contract only: the abstract reference big() is keyed by
			if pt, ok := vc.absPtr(args[i].Loc); ok {
				args[i] = Val{T: pt, Typ: args[i].Typ}
			}
		}
		vars[n] = args[i]
	}
	pre := st.clone()
	env := &SpecEnv{x: x, st: pre, old: pre, vars: vars, inCall: true, pkg: x.eng.pkgByPath(fc.Pkg), pol: -1}
	for j, r := range fc.Requires {
		if x.fc != nil && x.fc.Opts["no-callee-pre"] != "" {
			// the function under verification does not establish (and does not get to assume) the
			// preconditions of its callees: its own contract is about something else
			break
		}
		t, err := x.evalBool(r.Expr, env)
		if err != nil {
			return Val{}, fmt.Errorf("%s:%d: requires of %s at call site: %w", r.File, r.Line, short, err)
		}
		x.vc.oblige("call-pre", fmt.Sprintf("%s/pre#%d", site, j), st.pc, t, p, fmt.Sprintf("precondition of %s: %s (%s:%d)", short, r.Text, shortFile(p.Filename), p.Line))
		vc.assume(st.pc, t)
	}
	if x.fc != nil {
		keys := []string{short, fc.Name, fmt.Sprintf("%s#%d", short, ord), fmt.Sprintf("%s#%d", fc.Name, ord)}
		if short == fc.Name {
			keys = []string{short, fmt.Sprintf("%s#%d", short, ord)}
		}
		for _, key := range keys {
			if len(x.fc.CallPre[key]) > 0 {
				if x.cpHit == nil {
					x.cpHit = map[string]bool{}
				}
				x.cpHit[key] = true
			}
			for j, cp := range x.fc.CallPre[key] {
				// evaluated in the caller's environment, with the callee's argument names bound as well
				// the callee's parameter names take precedence over same-named locals of the caller
				pvars := map[string]Val{}
				for k, v := range vars {
					pvars["$local:"+k] = v
				}
				cenv := x.specEnv(fr, pre, nil).with(pvars)
				cenv.pol = -1
				t, err := x.evalBool(cp.Expr, cenv)
				if err != nil {
					return Val{}, fmt.Errorf("%s:%d: callpre %s: %w", cp.File, cp.Line, key, err)
				}
				if j == 0 && vc.dry == 0 {
					// vacuity guard: a rule at a call site that cannot be reached says nothing
					vc.obls = append(vc.obls, &Obligation{Name: fmt.Sprintf("cover/%s/%s", site, key), Kind: "cover", Goal: Not(st.pc), TraceLen: len(vc.trace), Pos: p, ExpectSat: true,
						Text: "call site reachable: " + short, Func: x.fc.Key(), Claimed: true})
				}
				oname := fmt.Sprintf("%s/callpre#%d", site, j)
				if strings.Contains(key, "#") {
					oname = fmt.Sprintf("%s/callpre-at#%d", site, j)
				}
				x.vc.oblige("call-pre", oname, st.pc, t, p, fmt.Sprintf("rule at call of %s: %s (%s:%d)", short, cp.Text, shortFile(p.Filename), p.Line))
			}
		}
	}
	if fc.Trusted && vc.dry == 0 {
		vc.trusted["trusted contract: "+fc.Key()] = true
	}
	// frame
	if fc.ModAll {
		x.havocCall(st, sig, short)
	} else if !fc.Pure {
		targets, err := x.modTargets(fc, env)
		if err != nil {
			return Val{}, err
		}
		x.growAlloc(st)
		for _, t := range targets {
			h := vc.heapGet(st, t.key, t.sort)
			if t.all {
				x.vc.setHeap(st, t.key, vc.freshConst("Hc", t.sort), -1)
				continue
			}
			_, vs := arraySorts(t.sort)
			if len(t.path) > 0 {
				nv := vc.freshConst("hc", vc.sortOf(t.leaf))
				vc.assume(st.pc, vc.wf(st, nv, t.leaf, 0))
				x.vc.setHeap(st, t.key, vc.bind("H", Store(h, t.ref, vc.update(Select(h, t.ref), t.path, nv))), pathField(t.path))
				continue
			}
			nv := vc.freshConst("hc", vs)
			if t.leaf != nil && vc.sortOf(t.leaf) == vs {
				// whatever the callee stored in the field is a well-formed value of the field's type
				vc.assume(st.pc, vc.wf(st, nv, t.leaf, 0))
			}
			x.vc.setHeap(st, t.key, vc.bind("H", Store(h, t.ref, nv)), -1)
		}
	} else if sigReturnsRef(sig) {
		// a pure callee may still allocate what it returns
		x.growAlloc(st)
	}
	// ghost updates declared by the contract: "ghost name = expr" clauses are in Opts["ghost:<name>"]
	res := x.freshResults(st, sig, sanitize(short))
	post := map[string]Val{}
	for k, v := range vars {
		post[k] = v
	}
	if len(fc.Results) > 0 {
		if res.Tuple != nil {
			for i, n := range fc.Results {
				if i < len(res.Tuple) {
					post[n] = res.Tuple[i]
				}
			}
		} else if !res.isZero() {
			post[fc.Results[0]] = res
		}
	}
	for gname, gexpr := range fc.Opts {
		if !strings.HasPrefix(gname, "ghost:") {
			continue
		}
		e, err := ParseExpr(gexpr)
		if err != nil {
			return Val{}, fmt.Errorf("%s: ghost update: %v", fc.Key(), err)
		}
		genv := &SpecEnv{x: x, st: pre, old: pre, vars: post, inCall: true, pkg: env.pkg}
		v, err := x.evalSpec(e, genv)
		if err != nil {
			return Val{}, fmt.Errorf("%s: ghost update: %w", fc.Key(), err)
		}
		st.ghost[gname[6:]] = vc.bind("g", v.T)
	}
	// Ghost frame: a callee changes only the ghost variables it declares (modifies ghost(x)), or has
	// an explicit update for (opt ghost:x expr); a "modifies *" callee may change every ghost variable.
	{
		var gl []string
		if fc.ModAll && !fc.Trusted {
			// a verified "modifies *" function has no ghost frame obligation, so it may change
			// any ghost variable; a trusted "modifies *" contract speaks about the heap only and
			// changes the ghost variables it names
			for n := range x.eng.ghostSorts {
				gl = append(gl, n)
			}
		}
		{
			for k := range fc.Opts {
				if strings.HasPrefix(k, "modghost:") {
					gl = append(gl, k[9:])
				}
			}
		}
		if fc.ModAll {
			// a callee that may write anything may change the real state the volatile ghosts mirror
			// (callees with a precise modifies clause change exactly what they list)
			for _, n := range x.volatileGhosts() {
				gl = append(gl, n)
			}
		}
		sort.Strings(gl)
		for _, name := range gl {
			if _, explicit := fc.Opts["ghost:"+name]; explicit {
				continue
			}
			if _, declared := fc.Opts["modghost:"+name]; !declared && fc.Opts["keepghost:"+name] != "" {
				continue
			}
			if gs, ok := x.eng.ghostSorts[name]; ok {
				st.ghost[name] = vc.freshConst("gc_"+name, x.eng.smtSort(gs, vc.ar.Mode))
			}
		}
	}
	penv := &SpecEnv{x: x, st: st, old: pre, vars: post, inCall: true, pkg: env.pkg, pol: 1}
	for _, e := range fc.Ensures {
		// a clause tagged [bv:...] / [int:...] of a trusted contract speaks only to callers verified in
		// that arithmetic (its spec functions exist in that mode only)
		if (strings.HasPrefix(e.Tag, "bv:") && vc.ar.Mode != ModeBV) || (strings.HasPrefix(e.Tag, "int:") && vc.ar.Mode != ModeInt) {
			continue
		}
		t, err := x.evalBool(e.Expr, penv)
		if err != nil {
			return Val{}, fmt.Errorf("%s:%d: ensures of %s at call site: %w", e.File, e.Line, short, err)
		}
		vc.assume(st.pc, t)
	}
	return res, nil
}

// ghostNames collects the ghost variables an expression reads (through spec macros as well).
func (e *Engine) ghostNames(ex Expr, out map[string]bool, depth int) {
	if depth > 20 || ex == nil {
		return
	}
	switch t := ex.(type) {
	case *ECall:
		if t.Fun == "ghost" && len(t.Args) == 1 {
			if id, ok := t.Args[0].(*EIdent); ok {
				out[id.Name] = true
			}
			return
		}
		if sf := e.specFuncs[t.Fun]; sf != nil {
			e.ghostNames(sf.Body.Expr, out, depth+1)
		}
		for _, a := range t.Args {
			e.ghostNames(a, out, depth)
		}
	case *EUnary:
		e.ghostNames(t.X, out, depth)
	case *EBinary:
		e.ghostNames(t.X, out, depth)
		e.ghostNames(t.Y, out, depth)
	case *ECond:
		e.ghostNames(t.C, out, depth)
		e.ghostNames(t.A, out, depth)
		e.ghostNames(t.B, out, depth)
	case *ESel:
		e.ghostNames(t.X, out, depth)
	case *EIndex:
		e.ghostNames(t.X, out, depth)
		e.ghostNames(t.I, out, depth)
	case *ESlice:
		e.ghostNames(t.X, out, depth)
		e.ghostNames(t.Lo, out, depth)
		e.ghostNames(t.Hi, out, depth)
	case *EQuant:
		e.ghostNames(t.Body, out, depth)
	case *EStar:
		e.ghostNames(t.X, out, depth)
	}
}

// modTargets evaluates the modifies designators of a contract in env.
func (x *Exec) modTargets(fc *FuncContract, env *SpecEnv) ([]modTarget, error) {
	var out []modTarget
	for _, m := range fc.Modifies {
		ts, err := x.designator(m.Expr, env)
		if err != nil {
			return nil, fmt.Errorf("%s:%d: modifies %s: %w", m.File, m.Line, m.Text, err)
		}
		out = append(out, ts...)
	}
	return out, nil
}

func (x *Exec) designator(e Expr, env *SpecEnv) ([]modTarget, error) {
	vc := x.vc
	switch t := e.(type) {
	case *EIdent:
		// a package-level variable of the contract's package: its own cell
		if env.pkg != nil {
			if _, isVar := env.pkg.Scope().Lookup(t.Name).(*types.Var); isVar {
				if sp := x.eng.prog.Package(env.pkg); sp != nil {
					if g, ok := sp.Members[t.Name].(*ssa.Global); ok {
						gt := g.Type().(*types.Pointer).Elem()
						switch gt.Underlying().(type) {
						case *types.Struct, *types.Array:
						default:
							key, hs := vc.cellKey(gt)
							return []modTarget{{key: key, sort: hs, ref: vc.globalRef(g)}}, nil
						}
					}
				}
			}
		}
	case *EStar:
		v, err := x.evalSpec(t.X, env)
		if err != nil {
			return nil, err
		}
		switch {
		case v.T.Sort == "Slice":
			et := types.Type(types.Typ[types.Uint8])
			if v.Typ != nil {
				et = v.Typ.Underlying().(*types.Slice).Elem()
			}
			key, hs := vc.elemKey(et)
			return []modTarget{{key: key, sort: hs, ref: app(SInt, "s-ref", v.T)}}, nil
		case v.Typ != nil:
			if mt, ok := v.Typ.Underlying().(*types.Map); ok {
				hk, hs, vk, vs := vc.mapKeys(mt)
				return []modTarget{{key: hk, sort: hs, ref: v.T}, {key: vk, sort: vs, ref: v.T}}, nil
			}
			if p, ok := v.Typ.Underlying().(*types.Pointer); ok {
				if at, ok := p.Elem().Underlying().(*types.Array); ok {
					key, hs := vc.elemKey(at.Elem())
					return []modTarget{{key: key, sort: hs, ref: v.T}}, nil
				}
			}
		}
		return nil, fmt.Errorf("[*] on unsupported value")
	case *ESel:
		if t.Name == "$all" {
			break
		}
		if l, err := x.evalLoc(t, env); err == nil && l.Kind == LField {
			lt := vc.locType(l)
			if at, isArr := lt.Underlying().(*types.Array); isArr && len(l.Path) == 0 {
				_ = at
			} else {
				return []modTarget{{key: l.Key, sort: vc.heapSortOf(l), ref: l.Ref, path: l.Path, leaf: lt}}, nil
			}
		}
		xv, err := x.evalSpec(t.X, env)
		if err != nil {
			return nil, err
		}
		if xv.Typ == nil {
			return nil, fmt.Errorf("untyped base")
		}
		p, ok := xv.Typ.Underlying().(*types.Pointer)
		if !ok {
			return nil, fmt.Errorf("base of %s is not a pointer", t.Name)
		}
		if isBigIntPtr(xv.Typ) && t.Name == "val" {
			return []modTarget{{key: "big.Int", sort: arraySort(SInt, SInt), ref: xv.T}}, nil
		}
		obj, index, _ := types.LookupFieldOrMethod(xv.Typ, true, nil, t.Name)
		if obj == nil {
			if n := namedOf(xv.Typ); n != nil && n.Obj().Pkg() != nil {
				obj, index, _ = types.LookupFieldOrMethod(xv.Typ, true, n.Obj().Pkg(), t.Name)
			}
		}
		if obj == nil || len(index) == 0 {
			return nil, fmt.Errorf("no field %s", t.Name)
		}
		stT := p.Elem()
		if len(index) > 1 {
			// through embedded struct by value: the first hop's field is the heap key
		}
		su := stT.Underlying().(*types.Struct)
		ft := su.Field(index[0]).Type()
		if _, isArr := ft.Underlying().(*types.Array); isArr {
			key, hs := vc.elemKey(ft.Underlying().(*types.Array).Elem())
			return []modTarget{{key: key, sort: hs, ref: vc.afld(stT, index[0], xv.T)}}, nil
		}
		if _, isPtr := ft.Underlying().(*types.Pointer); isPtr && len(index) > 1 {
			// embedded pointer: follow
			key, hs := vc.fieldKey(stT, index[0])
			inner := Val{T: Select(vc.heapGet(env.st, key, hs), xv.T), Typ: ft}
			return x.designatorField(inner, index[1:], env)
		}
		key, hs := vc.fieldKey(stT, index[0])
		return []modTarget{{key: key, sort: hs, ref: xv.T, leaf: ft}}, nil
	case *EUnary:
		if t.Op == "*" {
			break
		}
	case *ECall:
		if t.Fun == "big" && len(t.Args) == 1 {
			v, err := x.evalSpec(t.Args[0], env)
			if err != nil {
				return nil, err
			}
			return []modTarget{{key: "big.Int", sort: arraySort(SInt, SInt), ref: v.T}}, nil
		}
		if (t.Fun == "allcells" || t.Fun == "allelems") && len(t.Args) == 1 {
			// every heap cell / every slice element of type T
			ty, err := x.typeExpr(t.Args[0], env)
			if err != nil {
				return nil, err
			}
			if t.Fun == "allcells" {
				key, hs := vc.cellKey(ty)
				return []modTarget{{key: key, sort: hs, all: true}}, nil
			}
			key, hs := vc.elemKey(ty)
			return []modTarget{{key: key, sort: hs, all: true}}, nil
		}
		if t.Fun == "all" && len(t.Args) == 1 {
			// all(T.f): field f of every object of struct type T (of the contract's package)
			sel, ok := t.Args[0].(*ESel)
			if !ok {
				return nil, fmt.Errorf("all(T.f) expected")
			}
			ty, err := x.typeExpr(sel.X, env)
			if err != nil {
				return nil, err
			}
			su, ok := ty.Underlying().(*types.Struct)
			if !ok {
				return nil, fmt.Errorf("all(T.f): T is not a struct type")
			}
			for i := 0; i < su.NumFields(); i++ {
				if su.Field(i).Name() == sel.Name {
					key, hs := vc.fieldKey(ty, i)
					return []modTarget{{key: key, sort: hs, all: true}}, nil
				}
			}
			return nil, fmt.Errorf("all(T.f): no field %s", sel.Name)
		}
		if t.Fun == "fields" && len(t.Args) == 1 {
			// fields(p): every field of the struct p points to
			v, err := x.evalSpec(t.Args[0], env)
			if err != nil {
				return nil, err
			}
			p, ok := v.Typ.Underlying().(*types.Pointer)
			if !ok {
				return nil, fmt.Errorf("fields() needs a struct pointer")
			}
			su, ok := p.Elem().Underlying().(*types.Struct)
			if !ok {
				return nil, fmt.Errorf("fields() needs a struct pointer")
			}
			var out []modTarget
			for i := 0; i < su.NumFields(); i++ {
				ft := su.Field(i).Type()
				if at, isArr := ft.Underlying().(*types.Array); isArr {
					key, hs := vc.elemKey(at.Elem())
					out = append(out, modTarget{key: key, sort: hs, ref: vc.afld(p.Elem(), i, v.T)})
					continue
				}
				key, hs := vc.fieldKey(p.Elem(), i)
				out = append(out, modTarget{key: key, sort: hs, ref: v.T})
			}
			return out, nil
		}
		if t.Fun == "deref" && len(t.Args) == 1 {
			v, err := x.evalSpec(t.Args[0], env)
			if err != nil {
				return nil, err
			}
			if v.Typ == nil {
				return nil, fmt.Errorf("deref of untyped")
			}
			p, ok := v.Typ.Underlying().(*types.Pointer)
			if !ok {
				return nil, fmt.Errorf("deref of non-pointer")
			}
			key, hs := vc.cellKey(p.Elem())
			return []modTarget{{key: key, sort: hs, ref: v.T}}, nil
		}
	}
	return nil, fmt.Errorf("unsupported designator")
}

func (x *Exec) designatorField(base Val, index []int, env *SpecEnv) ([]modTarget, error) {
	vc := x.vc
	p, ok := base.Typ.Underlying().(*types.Pointer)
	if !ok {
		return nil, fmt.Errorf("embedded non-pointer")
	}
	stT := p.Elem()
	key, hs := vc.fieldKey(stT, index[0])
	return []modTarget{{key: key, sort: hs, ref: base.T}}, nil
}

// ---------------------------------------------------------------------------
// frame of the function under verification

func (x *Exec) modFormula(key string, r string) (Term, bool) {
	// true if reference r (an SMT variable name) may be modified for heap map key
	if x.fc == nil || x.fc.ModAll {
		return TTrue, true
	}
	var ors []Term
	for _, t := range x.topTargets {
		if t.key != key {
			continue
		}
		if t.all {
			return TTrue, true
		}
		ors = append(ors, Eq(raw(r, SInt), t.ref))
	}
	return Or(ors...), false
}

func (x *Exec) frameFormula(key, sort string, newH Term) Term {
	vc := x.vc
	if key == "$alloc" {
		return TTrue
	}
	m, all := x.modFormula(key, "r!f")
	if all {
		return TTrue
	}
	h0 := vc.heapInitial0(key, sort)
	al0 := vc.heapInitial0("$alloc", arraySort(SInt, SBool))
	cond := And(Select(al0, raw("r!f", SInt)), Not(m))
	return raw(fmt.Sprintf("(forall ((r!f Int)) (! (=> %s (= (select %s r!f) (select %s r!f))) :pattern ((select %s r!f))))", cond.S, newH.S, h0.S, newH.S), SBool)
}

func (vc *VC) heapInitial0(key, sort string) Term { return vc.heapAtEpoch(0, key, sort) }

func (x *Exec) frameAssumption(fr *frame, key, sort string, newH Term) Term {
	return x.frameFormula(key, sort, newH)
}

func (x *Exec) frameKept(fr *frame, head, st *State, hav *havocSet) Term {
	var cs []Term
	keys := make([]string, 0, len(hav.heap))
	for k := range hav.heap {
		keys = append(keys, k)
	}
	sort.Strings(keys)
	for _, k := range keys {
		h, ok := st.heap[k]
		if !ok {
			continue
		}
		cs = append(cs, x.frameFormula(k, h.Sort, h))
	}
	return And(cs...)
}

// ---------------------------------------------------------------------------
// defers

func (x *Exec) execDefer(fr *frame, st *State, d *ssa.Defer) error {
	c := d.Common()
	var args []Val
	for _, a := range c.Args {
		v, err := x.val(st, a)
		if err != nil {
			return err
		}
		args = append(args, v)
	}
	var fnv Val
	if !c.IsInvoke() {
		if _, isB := c.Value.(*ssa.Builtin); !isB {
			v, err := x.val(st, c.Value)
			if err != nil {
				return err
			}
			fnv = v
		}
	} else {
		v, err := x.val(st, c.Value)
		if err != nil {
			return err
		}
		fnv = v
	}
	st.defers = append(st.defers, deferred{call: c, args: args, fnv: fnv, pos: d.Pos()})
	return nil
}

func (x *Exec) runDefers(fr *frame, st *State) error {
	for len(st.defers) > fr.deferAt {
		d := st.defers[len(st.defers)-1]
		st.defers = st.defers[:len(st.defers)-1]
		c := d.call
		switch {
		case c.IsInvoke():
			in := namedOf(c.Value.Type())
			iname := c.Value.Type().String()
			if in != nil {
				iname = typeKey(in)
			}
			full := "(" + iname + ")." + c.Method.Name()
			if fc := x.eng.ifaceContract(iname, c.Method.Name()); fc != nil {
				if _, err := x.applyContract(fr, st, fc, c.Signature(), append([]Val{d.fnv}, d.args...), d.pos, nil); err != nil {
					return err
				}
				continue
			}
			if _, err := x.externOrHavoc(fr, st, full, c.Signature(), append([]Val{d.fnv}, d.args...), d.pos); err != nil {
				return err
			}
		case d.fnv.Clo != nil:
			if _, err := x.callStatic(fr, st, d.fnv.Clo.Fn, d.args, d.fnv.Clo.Bindings, d.pos); err != nil {
				return err
			}
		default:
			if b, ok := c.Value.(*ssa.Builtin); ok {
				if b.Name() == "recover" {
					return unsupported("recover")
				}
				continue
			}
			x.vc.noteHavoc("deferred dynamic call")
			x.havocCall(st, c.Signature(), "defer")
		}
	}
	return nil
}

// ---------------------------------------------------------------------------
// builtins

func (x *Exec) builtin(fr *frame, st *State, b *ssa.Builtin, c *ssa.CallCommon, args []Val, pos token.Pos, instr ssa.Instruction) (Val, error) {
	vc := x.vc
	idxS := vc.ar.IdxSort()
	switch b.Name() {
	case "len", "cap":
		a := args[0]
		switch t := c.Args[0].Type().Underlying().(type) {
		case *types.Slice:
			return Val{T: app(idxS, "s-"+b.Name(), a.T), Typ: types.Typ[types.Int]}, nil
		case *types.Basic:
			return Val{T: app(idxS, "gs.len", a.T), Typ: types.Typ[types.Int]}, nil
		case *types.Array:
			return Val{T: vc.idx(t.Len()), Typ: types.Typ[types.Int]}, nil
		case *types.Pointer:
			if at, ok := t.Elem().Underlying().(*types.Array); ok {
				return Val{T: vc.idx(at.Len()), Typ: types.Typ[types.Int]}, nil
			}
		case *types.Map:
			fn := "map.len"
			vc.decl("fun:"+fn+sanitize(typeKey(t.Key())), fmt.Sprintf("(declare-fun %s%s (%s) %s)", fn, sanitize(typeKey(t.Key())), arraySort(vc.sortOf(t.Key()), SBool), idxS))
			hk, hs, _, _ := vc.mapKeys(t)
			r := vc.bind("maplen", app(idxS, fn+sanitize(typeKey(t.Key())), Select(vc.heapGet(st, hk, hs), a.T)))
			vc.assume(st.pc, And(vc.ar.Cmp(">=", r, vc.idx(0), kInt), Implies(Eq(a.T, intLit64(0)), Eq(r, vc.idx(0))), vc.ar.InRange(r, kInt)))
			return Val{T: r, Typ: types.Typ[types.Int]}, nil
		case *types.Chan:
			r := vc.freshConst("chanlen", idxS)
			vc.assume(st.pc, And(vc.ar.Cmp(">=", r, vc.idx(0), kInt), vc.ar.InRange(r, kInt)))
			return Val{T: r, Typ: types.Typ[types.Int]}, nil
		}
		return Val{}, unsupported("%s of %s", b.Name(), c.Args[0].Type())
	case "append":
		return x.builtinAppend(fr, st, c, args, pos)
	case "copy":
		return x.builtinCopy(fr, st, c, args, pos)
	case "delete":
		mt := c.Args[0].Type().Underlying().(*types.Map)
		hk, hs, _, _ := vc.mapKeys(mt)
		has := vc.heapGet(st, hk, hs)
		m := args[0].T
		// delete on nil map is a no-op
		upd := Store(has, m, Store(Select(has, m), args[1].T, TFalse))
		x.vc.setHeap(st, hk, vc.bind("M", Ite(Eq(m, intLit64(0)), has, upd)), -1)
		return Val{}, nil
	case "print", "println":
		return Val{}, nil
	case "min", "max":
		k, ok := intKindOf(c.Args[0].Type())
		if !ok {
			return Val{}, unsupported("%s on %s", b.Name(), c.Args[0].Type())
		}
		r := args[0].T
		for _, a := range args[1:] {
			cmp := vc.ar.Cmp("<=", r, a.T, k)
			if b.Name() == "max" {
				cmp = vc.ar.Cmp(">=", r, a.T, k)
			}
			r = Ite(cmp, r, a.T)
		}
		return Val{T: vc.bind("mm", r), Typ: c.Args[0].Type()}, nil
	case "ssa:wrapnilchk":
		x.nonNil(fr, st, args[0].T, pos, "method value receiver")
		return args[0], nil
	case "ssa:deferstack":
		return Val{T: intLit64(0), Typ: types.Typ[types.Int]}, nil
	case "recover":
		return Val{}, unsupported("recover")
	case "close":
		return Val{}, unsupported("close of channel")
	}
	return Val{}, unsupported("builtin %s", b.Name())
}

func (x *Exec) qrange(i, lo, hi string) string {
	if x.vc.ar.Mode == ModeBV {
		return fmt.Sprintf("(and (bvsle %s %s) (bvslt %s %s))", lo, i, i, hi)
	}
	return fmt.Sprintf("(and (<= %s %s) (< %s %s))", lo, i, i, hi)
}

func (x *Exec) builtinAppend(fr *frame, st *State, c *ssa.CallCommon, args []Val, pos token.Pos) (Val, error) {
	vc := x.vc
	idxS := vc.ar.IdxSort()
	sT := c.Args[0].Type().Underlying().(*types.Slice)
	et := sT.Elem()
	key, hs := vc.elemKey(et)
	s := args[0].T
	sref, soff, slen, scap := app(SInt, "s-ref", s), app(idxS, "s-off", s), app(idxS, "s-len", s), app(idxS, "s-cap", s)
	E := vc.heapGet(st, key, hs)
	// source elements
	var n Term
	var srcAt func(i Term) Term
	if isString(c.Args[1].Type()) {
		n = app(idxS, "gs.len", args[1].T)
		srcAt = func(i Term) Term { return app(vc.ar.Sort(IntKind{8, false}), "gs.at", args[1].T, i) }
	} else {
		t := args[1].T
		n = app(idxS, "s-len", t)
		tarr := Select(E, app(SInt, "s-ref", t))
		toff := app(idxS, "s-off", t)
		srcAt = func(i Term) Term {
			a, _ := vc.ar.Bin("+", toff, i, kInt)
			return Select(tarr, a)
		}
	}
	// simplify n when the variadic slice has a literal length
	newlen, _ := vc.ar.Bin("+", slen, n, kInt)
	newlen = vc.bind("alen", newlen)
	if vc.ar.Mode == ModeInt {
		vc.assume(st.pc, vc.ar.InRange(newlen, kInt))
	} else {
		vc.assume(st.pc, vc.ar.Cmp(">=", newlen, slen, kInt)) // allocation would fail otherwise
	}
	fits := vc.bind("fits", vc.ar.Cmp("<=", newlen, scap, kInt))
	// in-place array
	arrA := Select(E, sref)
	base, _ := vc.ar.Bin("+", soff, slen, kInt)
	base = vc.bind("abase", base)
	r2 := vc.allocRef(st, "app")
	E = vc.heapGet(st, key, hs) // alloc does not change E but keep current
	inplace := arrA
	fresh := vc.freshConst("apparr", arrA.Sort)
	// fresh array: prefix copied from s
	vc.assert(raw(fmt.Sprintf("(forall ((i!q %s)) (! (=> %s (= (select %s i!q) (select %s %s))) :pattern ((select %s i!q))))",
		idxS, x.qrange("i!q", vc.idx(0).S, slen.S), fresh.S, arrA.S, x.addS(soff.S, "i!q"), fresh.S), SBool))
	freshFull := fresh
	if n.C != nil && n.C.Int64() <= 8 {
		for i := int64(0); i < n.C.Int64(); i++ {
			ii := vc.idx(i)
			a1, _ := vc.ar.Bin("+", base, ii, kInt)
			inplace = Store(inplace, a1, srcAt(ii))
			a2, _ := vc.ar.Bin("+", slen, ii, kInt)
			freshFull = Store(freshFull, a2, srcAt(ii))
		}
	} else {
		ip := vc.freshConst("appin", arrA.Sort)
		lim, _ := vc.ar.Bin("+", base, n, kInt)
		srcI := srcAt(raw(x.subS("i!q", base.S), idxS))
		vc.assert(raw(fmt.Sprintf("(forall ((i!q %s)) (! (= (select %s i!q) (ite %s %s (select %s i!q))) :pattern ((select %s i!q))))",
			idxS, ip.S, x.qrange("i!q", base.S, lim.S), srcI.S, arrA.S, ip.S), SBool))
		inplace = ip
		ff := vc.freshConst("appfr", arrA.Sort)
		srcJ := srcAt(raw(x.subS("i!q", slen.S), idxS))
		vc.assert(raw(fmt.Sprintf("(forall ((i!q %s)) (! (= (select %s i!q) (ite %s %s (select %s i!q))) :pattern ((select %s i!q))))",
			idxS, ff.S, x.qrange("i!q", slen.S, newlen.S), srcJ.S, fresh.S, ff.S), SBool))
		freshFull = ff
	}
	ncap := vc.freshConst("ncap", idxS)
	vc.assume(st.pc, And(vc.ar.Cmp(">=", ncap, newlen, kInt), vc.ar.InRange(ncap, kInt)))
	x.vc.setHeap(st, key, vc.bind("E", Ite(fits, Store(E, sref, inplace), Store(E, r2, freshFull))), -1)
	res := Ite(fits, app("Slice", "mk-slice", sref, soff, newlen, scap), app("Slice", "mk-slice", r2, vc.idx(0), newlen, ncap))
	// appending nothing to nil yields nil: Go returns the original slice when n == 0
	res = Ite(Eq(n, vc.idx(0)), s, res)
	if n.C == nil || n.C.Sign() == 0 {
		x.vc.setHeap(st, key, vc.bind("E", Ite(Eq(n, vc.idx(0)), E, st.heap[key])), -1)
	}
	rv := vc.bind("app", res)
	// Derived facts (consequences of the encoding above, stated to guide quantifier
	// instantiation): the result agrees with s on the old range, and holds the new elements.
	{
		nE := st.heap[key]
		nref, noff := app(SInt, "s-ref", rv), app(idxS, "s-off", rv)
		// element addresses are written exactly as slice indexing writes them (elt in Int mode)
		elt := func(off Term, i string) string { return vc.elemIndex(off, raw(i, idxS)).S }
		newAt := func(i string) string {
			return "(select (select " + nE.S + " " + nref.S + ") " + elt(noff, i) + ")"
		}
		oldAt := func(i string) string { return "(select " + arrA.S + " " + elt(soff, i) + ")" }
		vc.assume(st.pc, raw(fmt.Sprintf("(forall ((i!q %s)) (! (=> %s (= %s %s)) :pattern (%s) :pattern (%s)))",
			idxS, x.qrange("i!q", vc.idx(0).S, slen.S), newAt("i!q"), oldAt("i!q"), newAt("i!q"), oldAt("i!q")), SBool))
		if n.C != nil && n.C.Int64() <= 8 {
			for i := int64(0); i < n.C.Int64(); i++ {
				at, _ := vc.ar.Bin("+", slen, vc.idx(i), kInt)
				vc.assume(st.pc, raw("(= "+newAt(at.S)+" "+srcAt(vc.idx(i)).S+")", SBool))
			}
		}
	}
	return Val{T: rv, Typ: c.Args[0].Type()}, nil
}

func (x *Exec) addS(a, b string) string {
	if x.vc.ar.Mode == ModeBV {
		return "(bvadd " + a + " " + b + ")"
	}
	return "(+ " + a + " " + b + ")"
}
func (x *Exec) subS(a, b string) string {
	if x.vc.ar.Mode == ModeBV {
		return "(bvsub " + a + " " + b + ")"
	}
	return "(- " + a + " " + b + ")"
}

func (x *Exec) builtinCopy(fr *frame, st *State, c *ssa.CallCommon, args []Val, pos token.Pos) (Val, error) {
	vc := x.vc
	idxS := vc.ar.IdxSort()
	dT := c.Args[0].Type().Underlying().(*types.Slice)
	key, hs := vc.elemKey(dT.Elem())
	E := vc.heapGet(st, key, hs)
	d := args[0].T
	dref, doff, dlen := app(SInt, "s-ref", d), app(idxS, "s-off", d), app(idxS, "s-len", d)
	var slen Term
	var srcAt func(i string) string
	if isString(c.Args[1].Type()) {
		slen = app(idxS, "gs.len", args[1].T)
		srcAt = func(i string) string { return "(gs.at " + args[1].T.S + " " + i + ")" }
	} else {
		s := args[1].T
		slen = app(idxS, "s-len", s)
		sarr := Select(E, app(SInt, "s-ref", s))
		soff := app(idxS, "s-off", s)
		srcAt = func(i string) string { return "(select " + sarr.S + " " + x.addS(soff.S, i) + ")" }
	}
	n := vc.bind("ncopy", Ite(vc.ar.Cmp("<=", dlen, slen, kInt), dlen, slen))
	darr := Select(E, dref)
	na := vc.freshConst("cparr", darr.Sort)
	lim, _ := vc.ar.Bin("+", doff, n, kInt)
	vc.assert(raw(fmt.Sprintf("(forall ((i!q %s)) (! (= (select %s i!q) (ite %s %s (select %s i!q))) :pattern ((select %s i!q))))",
		idxS, na.S, x.qrange("i!q", doff.S, lim.S), srcAt(x.subS("i!q", doff.S)), darr.S, na.S), SBool))
	x.vc.setHeap(st, key, vc.bind("E", Ite(Eq(n, vc.idx(0)), E, Store(E, dref, na))), -1)
	return Val{T: n, Typ: types.Typ[types.Int]}, nil
}

// sigReturnsRef: some result may carry a reference (pointer, slice, map, interface, struct, ...).
func sigReturnsRef(sig *types.Signature) bool {
	for i := 0; i < sig.Results().Len(); i++ {
		switch u := sig.Results().At(i).Type().Underlying().(type) {
		case *types.Basic:
			_ = u
		default:
			return true
		}
	}
	return false
}

// embeddedIfaceContract looks for a contract of method m on the named interfaces embedded
// (transitively) in interface type t.
func (e *Engine) embeddedIfaceContract(t types.Type, m string, depth int) *FuncContract {
	if depth > 6 {
		return nil
	}
	it, ok := t.Underlying().(*types.Interface)
	if !ok {
		return nil
	}
	for i := 0; i < it.NumEmbeddeds(); i++ {
		et := it.EmbeddedType(i)
		if n := namedOf(et); n != nil {
			if fc := e.ifaceContract(typeKey(n), m); fc != nil {
				return fc
			}
		}
		if fc := e.embeddedIfaceContract(et, m, depth+1); fc != nil {
			return fc
		}
	}
	return nil
}
