package main

import (
	"bytes"
	"context"
	"fmt"
	"os"
	"os/exec"
	"path/filepath"
	"strings"
	"sync"
	"time"
)

type SolveResult struct {
	Status  string // unsat sat unknown timeout error
	Solver  string
	Seconds float64
	Output  string
	File    string
	Tried   []string
}

type solverSpec struct {
	name string
	args func(file string, timeoutS int) []string
}

var solvers = []solverSpec{
	{"z3-new", func(f string, t int) []string { return []string{"z3-new", fmt.Sprintf("-T:%d", t), f} }},
	{"cvc5", func(f string, t int) []string {
		return []string{"cvc5", fmt.Sprintf("--tlimit=%d", t*1000), "--lang=smt2", f}
	}},
	{"z3", func(f string, t int) []string { return []string{"z3", fmt.Sprintf("-T:%d", t), f} }},
}

func runSolver(s solverSpec, file string, timeoutS int) (string, string, float64) {
	args := s.args(file, timeoutS)
	ctx, cancel := context.WithTimeout(context.Background(), time.Duration(timeoutS+5)*time.Second)
	defer cancel()
	cmd := exec.CommandContext(ctx, args[0], args[1:]...)
	var out bytes.Buffer
	cmd.Stdout = &out
	cmd.Stderr = &out
	t0 := time.Now()
	_ = cmd.Run()
	el := time.Since(t0).Seconds()
	text := out.String()
	first := strings.TrimSpace(strings.SplitN(text, "\n", 2)[0])
	switch first {
	case "unsat", "sat", "unknown":
		return first, text, el
	}
	if strings.Contains(text, "timeout") || ctx.Err() != nil {
		return "timeout", text, el
	}
	return "error", text, el
}

// solveOne runs the portfolio on one obligation file. wantModel: rerun with model on sat.
func solveOne(file string, timeoutS int, all bool) *SolveResult {
	res := &SolveResult{File: file, Status: "unknown"}
	var total float64
	for _, s := range solvers {
		st, out, el := runSolver(s, file, timeoutS)
		total += el
		res.Tried = append(res.Tried, fmt.Sprintf("%s:%s:%.2fs", s.name, st, el))
		if st == "unsat" || st == "sat" {
			if !all {
				res.Status, res.Solver, res.Output, res.Seconds = st, s.name, out, total
				return res
			}
			if res.Solver == "" {
				res.Status, res.Solver, res.Output = st, s.name, out
			} else if res.Status != st {
				res.Status = "disagree"
				res.Output += "\n--- " + s.name + " says " + st + "\n" + out
			}
			continue
		}
		if res.Solver == "" {
			res.Output = out
			if st == "timeout" && res.Status == "unknown" {
				res.Status = "timeout"
			}
			if st == "error" {
				res.Status = "error"
			}
		}
	}
	res.Seconds = total
	return res
}

type job struct {
	fr   *FuncResult
	o    *Obligation
	res  *SolveResult
	file string
}

func (e *Engine) solveAll(outDir string, results []*FuncResult, timeoutS int, all bool, workers int) []*job {
	_ = os.MkdirAll(outDir, 0o755)
	var jobs []*job
	for _, fr := range results {
		if fr.VC == nil || fr.Err != nil || fr.Undecided != "" {
			continue
		}
		for _, o := range fr.VC.obls {
			name := sanitize(fr.Key + "__" + o.Name)
			if len(name) > 180 {
				name = name[:180]
			}
			file := filepath.Join(outDir, name+".smt2")
			if err := os.WriteFile(file, []byte(e.smtFile(fr.VC, o, false)), 0o644); err != nil {
				panic(err)
			}
			jobs = append(jobs, &job{fr: fr, o: o, file: file})
		}
	}
	ch := make(chan *job)
	var wg sync.WaitGroup
	for w := 0; w < workers; w++ {
		wg.Add(1)
		go func() {
			defer wg.Done()
			for j := range ch {
				j.res = solveOne(j.file, timeoutS, all)
				if j.res.Status == "sat" && !j.o.ExpectSat {
					// get a model
					mf := strings.TrimSuffix(j.file, ".smt2") + ".model.smt2"
					_ = os.WriteFile(mf, []byte(e.smtFile(j.fr.VC, j.o, true)), 0o644)
					for _, s := range solvers {
						if s.name == j.res.Solver {
							_, out, _ := runSolver(s, mf, timeoutS)
							j.res.Output = out
						}
					}
				}
			}
		}()
	}
	for _, j := range jobs {
		ch <- j
	}
	close(ch)
	wg.Wait()
	return jobs
}
