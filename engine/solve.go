package main

import (
	"bytes"
	"context"
	"fmt"
	"os"
	"os/exec"
	"path/filepath"
	"runtime"
	"strconv"
	"strings"
	"sync"
	"time"
)

type SolveResult struct {
	Status  string // unsat sat unknown timeout error
	Solver  string
	Seconds float64
	Output  string
	File    string
	Tried   []string
}

type solverSpec struct {
	name string
	args func(file string, timeoutS int) []string
}

var solvers = []solverSpec{
	{"z3-new", func(f string, t int) []string { return []string{"z3-new", fmt.Sprintf("-T:%d", t), f} }},
	{"cvc5", func(f string, t int) []string {
		return []string{"cvc5", fmt.Sprintf("--tlimit=%d", t*1000), "--lang=smt2", f}
	}},
	{"z3", func(f string, t int) []string { return []string{"z3", fmt.Sprintf("-T:%d", t), f} }},
	// same solver, more eager E-matching: decides some quantified goals the default gives up on
	{"z3-new-eager", func(f string, t int) []string {
		return []string{"z3-new", fmt.Sprintf("-T:%d", t), "smt.qi.eager_threshold=100", f}
	}},
}

// solverSlots bounds the number of solver processes running at once (VERIF_JOBS, default: number
// of CPUs), so that a wall-clock solver timeout is not eaten by oversubscription when several
// obligations race several solvers each.
var solverSlots = func() chan struct{} {
	n := runtime.NumCPU()
	if v, err := strconv.Atoi(os.Getenv("VERIF_JOBS")); err == nil && v > 0 {
		n = v
	}
	return make(chan struct{}, n)
}()

// runSolver runs one solver on one file; a run that ends without a verdict and without a timeout
// (killed for memory, fork failure under load) is repeated once after a pause.
func runSolver(s solverSpec, file string, timeoutS int) (string, string, float64) {
	st, text, el := runSolverOnce(s, file, timeoutS)
	if st == "error" && !strings.Contains(text, "(error") {
		time.Sleep(2 * time.Second)
		st2, text2, el2 := runSolverOnce(s, file, timeoutS)
		return st2, text2, el + el2
	}
	return st, text, el
}

func runSolverOnce(s solverSpec, file string, timeoutS int) (string, string, float64) {
	solverSlots <- struct{}{}
	defer func() { <-solverSlots }()
	args := s.args(file, timeoutS)
	ctx, cancel := context.WithTimeout(context.Background(), time.Duration(timeoutS+5)*time.Second)
	defer cancel()
	cmd := exec.CommandContext(ctx, args[0], args[1:]...)
	var out bytes.Buffer
	cmd.Stdout = &out
	cmd.Stderr = &out
	t0 := time.Now()
	_ = cmd.Run()
	el := time.Since(t0).Seconds()
	text := out.String()
	first := strings.TrimSpace(strings.SplitN(text, "\n", 2)[0])
	switch first {
	case "unsat", "sat", "unknown":
		return first, text, el
	}
	if strings.Contains(text, "timeout") || ctx.Err() != nil {
		return "timeout", text, el
	}
	return "error", text, el
}

// solveOne runs the portfolio on one obligation file. wantModel: rerun with model on sat.
func solveOne(file string, timeoutS int, all bool) *SolveResult {
	if !all {
		return solveRace(file, timeoutS)
	}
	res := &SolveResult{File: file, Status: "unknown"}
	var total float64
	for _, s := range solvers {
		st, out, el := runSolver(s, file, timeoutS)
		total += el
		res.Tried = append(res.Tried, fmt.Sprintf("%s:%s:%.2fs", s.name, st, el))
		if st == "unsat" || st == "sat" {
			if !all {
				res.Status, res.Solver, res.Output, res.Seconds = st, s.name, out, total
				return res
			}
			if res.Solver == "" {
				res.Status, res.Solver, res.Output = st, s.name, out
			} else if res.Status != st {
				res.Status = "disagree"
				res.Output += "\n--- " + s.name + " says " + st + "\n" + out
			}
			continue
		}
		if res.Solver == "" {
			res.Output = out
			if st == "timeout" && res.Status == "unknown" {
				res.Status = "timeout"
			}
			if st == "error" {
				res.Status = "error"
			}
		}
	}
	res.Seconds = total
	return res
}

type job struct {
	fr   *FuncResult
	o    *Obligation
	res  *SolveResult
	file string
}

func (e *Engine) solveAll(outDir string, results []*FuncResult, timeoutS int, all bool, workers int) []*job {
	_ = os.MkdirAll(outDir, 0o755)
	var jobs []*job
	for _, fr := range results {
		if fr.VC == nil || fr.Err != nil || fr.Undecided != "" {
			continue
		}
		for _, o := range fr.VC.obls {
			name := sanitize(fr.Key + "__" + o.Name)
			if len(name) > 180 {
				name = name[:180]
			}
			file := filepath.Join(outDir, name+".smt2")
			if err := os.WriteFile(file, []byte(e.smtFile(fr.VC, o, false)), 0o644); err != nil {
				panic(err)
			}
			jobs = append(jobs, &job{fr: fr, o: o, file: file})
		}
	}
	ch := make(chan *job)
	var wg sync.WaitGroup
	for w := 0; w < workers; w++ {
		wg.Add(1)
		go func() {
			defer wg.Done()
			for j := range ch {
				if j.o.ExpectSat {
					j.res = solveCover(j.file)
				} else {
					j.res = solveOne(j.file, timeoutS, all)
				}
				if j.res.Status == "sat" && !j.o.ExpectSat {
					// get a model
					mf := strings.TrimSuffix(j.file, ".smt2") + ".model.smt2"
					_ = os.WriteFile(mf, []byte(e.smtFile(j.fr.VC, j.o, true)), 0o644)
					for _, s := range solvers {
						if s.name == j.res.Solver {
							_, out, _ := runSolver(s, mf, timeoutS)
							j.res.Output = out
						}
					}
				}
			}
		}()
	}
	for _, j := range jobs {
		ch <- j
	}
	close(ch)
	wg.Wait()
	return jobs
}

// solveCover: a vacuity check. unsat from any solver means vacuous; sat/unknown/timeout are fine.
func solveCover(file string) *SolveResult {
	res := &SolveResult{File: file, Status: "unknown"}
	nerr := 0
	for _, s := range solvers[:2] {
		st, out, el := runSolver(s, file, 3)
		res.Seconds += el
		res.Tried = append(res.Tried, fmt.Sprintf("%s:%s:%.2fs", s.name, st, el))
		if st == "sat" || st == "unsat" {
			res.Status, res.Solver, res.Output = st, s.name, out
			return res
		}
		if st == "error" {
			nerr++
			res.Output = out
		}
	}
	if nerr == 2 {
		// both solvers reject the query: report it (one rejecting and the other undecided is "unknown")
		res.Status = "error"
	}
	return res
}

// solveRace: z3-new alone for a short slice; if undecided, all three solvers race for the
// full timeout and the first definitive answer wins.
func solveRace(file string, timeoutS int) *SolveResult {
	res := &SolveResult{File: file, Status: "unknown"}
	t0 := time.Now()
	st, out, el := runSolver(solvers[0], file, 3)
	res.Tried = append(res.Tried, fmt.Sprintf("%s:%s:%.2fs", solvers[0].name, st, el))
	if st == "sat" || st == "unsat" {
		res.Status, res.Solver, res.Output, res.Seconds = st, solvers[0].name, out, el
		return res
	}
	res.Output = out
	type ans struct {
		name, st, out string
		el            float64
	}
	ch := make(chan ans, len(solvers))
	ctx, cancel := context.WithCancel(context.Background())
	defer cancel()
	for _, s := range solvers {
		go func(s solverSpec) {
			select {
			case solverSlots <- struct{}{}:
				defer func() { <-solverSlots }()
			case <-ctx.Done():
				ch <- ans{s.name, "unknown", "", 0}
				return
			}
			if ctx.Err() != nil {
				ch <- ans{s.name, "unknown", "", 0}
				return
			}
			args := s.args(file, timeoutS)
			c2, cancel2 := context.WithTimeout(ctx, time.Duration(timeoutS+5)*time.Second)
			defer cancel2()
			cmd := exec.CommandContext(c2, args[0], args[1:]...)
			var buf bytes.Buffer
			cmd.Stdout = &buf
			cmd.Stderr = &buf
			t1 := time.Now()
			_ = cmd.Run()
			text := buf.String()
			first := strings.TrimSpace(strings.SplitN(text, "\n", 2)[0])
			st := "error"
			switch first {
			case "unsat", "sat", "unknown":
				st = first
			default:
				if strings.Contains(text, "timeout") || c2.Err() != nil {
					st = "timeout"
				}
			}
			ch <- ans{s.name, st, text, time.Since(t1).Seconds()}
		}(s)
	}
	sawTimeout, sawError := false, false
	for range solvers {
		a := <-ch
		res.Tried = append(res.Tried, fmt.Sprintf("%s:%s:%.2fs", a.name, a.st, a.el))
		if a.st == "sat" || a.st == "unsat" {
			res.Status, res.Solver, res.Output = a.st, a.name, a.out
			cancel()
			break
		}
		if a.st == "timeout" {
			sawTimeout = true
		}
		if a.st == "error" {
			sawError = true
			res.Output = a.out
		}
	}
	if res.Solver == "" {
		switch {
		case sawTimeout:
			res.Status = "timeout"
		case sawError:
			res.Status = "error"
		}
	}
	res.Seconds = time.Since(t0).Seconds()
	return res
}
