package main

// SMT term construction with light constant folding.
// A Term is an SMT-LIB expression string with its sort. Integer-like terms may
// carry a known constant value (C) so that unrolled loops with concrete counters
// collapse (guards become literal true/false and dead edges are pruned).

import (
	"fmt"
	"math/big"
	"strings"
)

type Term struct {
	S    string
	Sort string
	C    *big.Int // known constant (Int: math value; BitVec: unsigned value)
	B    int8     // for Bool: 1 = true, -1 = false, 0 = unknown
}

const (
	SBool = "Bool"
	SInt  = "Int"
)

func bvSort(w int) string { return fmt.Sprintf("(_ BitVec %d)", w) }

func isBV(sort string) (int, bool) {
	var w int
	if n, _ := fmt.Sscanf(sort, "(_ BitVec %d)", &w); n == 1 {
		return w, true
	}
	return 0, false
}

var (
	TTrue  = Term{S: "true", Sort: SBool, B: 1}
	TFalse = Term{S: "false", Sort: SBool, B: -1}
)

func boolT(b bool) Term {
	if b {
		return TTrue
	}
	return TFalse
}

func raw(s, sort string) Term { return Term{S: s, Sort: sort} }

func intLit(v *big.Int) Term {
	s := v.String()
	if v.Sign() < 0 {
		s = "(- " + new(big.Int).Neg(v).String() + ")"
	}
	return Term{S: s, Sort: SInt, C: new(big.Int).Set(v)}
}

func intLit64(v int64) Term { return intLit(big.NewInt(v)) }

func mask(w int) *big.Int {
	m := new(big.Int).Lsh(big.NewInt(1), uint(w))
	return m.Sub(m, big.NewInt(1))
}

// bvLit builds a bit-vector literal from any integer (two's complement wrap).
func bvLit(v *big.Int, w int) Term {
	u := new(big.Int).And(v, mask(w)) // big.Int And on negatives uses two's complement semantics
	if v.Sign() < 0 {
		m := new(big.Int).Lsh(big.NewInt(1), uint(w))
		u = new(big.Int).Mod(v, m)
	}
	var s string
	if w%4 == 0 {
		s = fmt.Sprintf("#x%0*s", w/4, u.Text(16))
	} else {
		s = fmt.Sprintf("(_ bv%s %d)", u.String(), w)
	}
	return Term{S: s, Sort: bvSort(w), C: u}
}

func toSigned(u *big.Int, w int) *big.Int {
	if u.Bit(w-1) == 1 {
		return new(big.Int).Sub(u, new(big.Int).Lsh(big.NewInt(1), uint(w)))
	}
	return new(big.Int).Set(u)
}

func app(sort string, op string, args ...Term) Term {
	var sb strings.Builder
	sb.WriteByte('(')
	sb.WriteString(op)
	for _, a := range args {
		sb.WriteByte(' ')
		sb.WriteString(a.S)
	}
	sb.WriteByte(')')
	return Term{S: sb.String(), Sort: sort}
}

func Not(a Term) Term {
	switch a.B {
	case 1:
		return TFalse
	case -1:
		return TTrue
	}
	if strings.HasPrefix(a.S, "(not ") {
		return Term{S: a.S[5 : len(a.S)-1], Sort: SBool}
	}
	return app(SBool, "not", a)
}

func And(ts ...Term) Term {
	var keep []Term
	for _, t := range ts {
		if t.B == -1 {
			return TFalse
		}
		if t.B == 1 {
			continue
		}
		keep = append(keep, t)
	}
	switch len(keep) {
	case 0:
		return TTrue
	case 1:
		return keep[0]
	}
	return app(SBool, "and", keep...)
}

func Or(ts ...Term) Term {
	var keep []Term
	for _, t := range ts {
		if t.B == 1 {
			return TTrue
		}
		if t.B == -1 {
			continue
		}
		keep = append(keep, t)
	}
	switch len(keep) {
	case 0:
		return TFalse
	case 1:
		return keep[0]
	}
	return app(SBool, "or", keep...)
}

func Implies(a, b Term) Term {
	if a.B == 1 {
		return b
	}
	if a.B == -1 || b.B == 1 {
		return TTrue
	}
	if b.B == -1 {
		return Not(a)
	}
	return app(SBool, "=>", a, b)
}

func Iff(a, b Term) Term {
	if a.B != 0 && b.B != 0 {
		return boolT(a.B == b.B)
	}
	if a.B == 1 {
		return b
	}
	if b.B == 1 {
		return a
	}
	if a.B == -1 {
		return Not(b)
	}
	if b.B == -1 {
		return Not(a)
	}
	return app(SBool, "=", a, b)
}

func Eq(a, b Term) Term {
	if a.Sort == SBool {
		return Iff(a, b)
	}
	if a.C != nil && b.C != nil {
		return boolT(a.C.Cmp(b.C) == 0)
	}
	if a.S == b.S {
		return TTrue
	}
	return app(SBool, "=", a, b)
}

func Ite(c, a, b Term) Term {
	if c.B == 1 {
		return a
	}
	if c.B == -1 {
		return b
	}
	if a.S == b.S {
		return a
	}
	if a.Sort == SBool {
		if a.B == 1 && b.B == -1 {
			return c
		}
		if a.B == -1 && b.B == 1 {
			return Not(c)
		}
	}
	return app(a.Sort, "ite", c, a, b)
}

func Select(arr, idx Term) Term {
	// sort of result: parse "(Array K V)"
	_, v := arraySorts(arr.Sort)
	// select over store with syntactically equal index
	return app(v, "select", arr, idx)
}

func Store(arr, idx, val Term) Term {
	return app(arr.Sort, "store", arr, idx, val)
}

// arraySorts splits "(Array K V)" into K and V.
func arraySorts(s string) (string, string) {
	if !strings.HasPrefix(s, "(Array ") {
		panic("not an array sort: " + s)
	}
	body := s[7 : len(s)-1]
	// K is first balanced token
	depth := 0
	for i, ch := range body {
		switch ch {
		case '(':
			depth++
		case ')':
			depth--
		case ' ':
			if depth == 0 {
				return body[:i], body[i+1:]
			}
		}
	}
	panic("bad array sort: " + s)
}

func arraySort(k, v string) string { return "(Array " + k + " " + v + ")" }

// ---------------------------------------------------------------------------
// Integer arithmetic, parameterised by mode.

type IntKind struct {
	W      int  // width in bits
	Signed bool // Go signedness
}

func (k IntKind) min() *big.Int {
	if !k.Signed {
		return big.NewInt(0)
	}
	return new(big.Int).Neg(new(big.Int).Lsh(big.NewInt(1), uint(k.W-1)))
}
func (k IntKind) max() *big.Int {
	if !k.Signed {
		return mask(k.W)
	}
	m := new(big.Int).Lsh(big.NewInt(1), uint(k.W-1))
	return m.Sub(m, big.NewInt(1))
}

type Mode int

const (
	ModeBV Mode = iota
	ModeInt
)

func (m Mode) String() string {
	if m == ModeBV {
		return "bv"
	}
	return "int"
}

// Arith builds integer terms for one mode.
type Arith struct{ Mode Mode }

func (a Arith) Sort(k IntKind) string {
	if a.Mode == ModeBV {
		return bvSort(k.W)
	}
	return SInt
}

func (a Arith) IdxSort() string { return a.Sort(IntKind{64, true}) }

func (a Arith) Lit(v *big.Int, k IntKind) Term {
	if a.Mode == ModeBV {
		return bvLit(v, k.W)
	}
	return intLit(v)
}

func (a Arith) Lit64(v int64, k IntKind) Term { return a.Lit(big.NewInt(v), k) }

// value returns the mathematical value of constant term t of kind k.
func (a Arith) value(t Term, k IntKind) *big.Int {
	if t.C == nil {
		return nil
	}
	if a.Mode == ModeBV && k.Signed {
		return toSigned(t.C, k.W)
	}
	return t.C
}

func (a Arith) wrapConst(v *big.Int, k IntKind) *big.Int {
	m := new(big.Int).Lsh(big.NewInt(1), uint(k.W))
	u := new(big.Int).Mod(v, m)
	if k.Signed {
		return toSigned(u, k.W)
	}
	return u
}

// InRange returns the range predicate for a value of kind k (Int mode); true in BV.
func (a Arith) InRange(t Term, k IntKind) Term {
	if a.Mode == ModeBV {
		return TTrue
	}
	return And(a.cmpRaw("<=", intLit(k.min()), t), a.cmpRaw("<=", t, intLit(k.max())))
}

func (a Arith) cmpRaw(op string, x, y Term) Term {
	if x.C != nil && y.C != nil {
		c := x.C.Cmp(y.C)
		switch op {
		case "<":
			return boolT(c < 0)
		case "<=":
			return boolT(c <= 0)
		case ">":
			return boolT(c > 0)
		case ">=":
			return boolT(c >= 0)
		}
	}
	return app(SBool, op, x, y)
}

// Cmp: op in < <= > >=
func (a Arith) Cmp(op string, x, y Term, k IntKind) Term {
	if x.C != nil && y.C != nil {
		c := a.value(x, k).Cmp(a.value(y, k))
		switch op {
		case "<":
			return boolT(c < 0)
		case "<=":
			return boolT(c <= 0)
		case ">":
			return boolT(c > 0)
		case ">=":
			return boolT(c >= 0)
		}
	}
	if a.Mode == ModeInt {
		return app(SBool, op, x, y)
	}
	var bop string
	switch op {
	case "<":
		bop = "lt"
	case "<=":
		bop = "le"
	case ">":
		bop = "gt"
	case ">=":
		bop = "ge"
	}
	if k.Signed {
		return app(SBool, "bvs"+bop, x, y)
	}
	return app(SBool, "bvu"+bop, x, y)
}

// Bin computes a Go binary arithmetic operator (not shifts, not comparisons).
// In Int mode the result is the mathematical result (callers emit overflow
// obligations), except for bit operations which are encoded where possible.
func (a Arith) Bin(op string, x, y Term, k IntKind) (Term, error) {
	sort := a.Sort(k)
	if x.C != nil && y.C != nil {
		xv, yv := a.value(x, k), a.value(y, k)
		var r *big.Int
		switch op {
		case "+":
			r = new(big.Int).Add(xv, yv)
		case "-":
			r = new(big.Int).Sub(xv, yv)
		case "*":
			r = new(big.Int).Mul(xv, yv)
		case "/":
			if yv.Sign() != 0 {
				r = new(big.Int).Quo(xv, yv)
			}
		case "%":
			if yv.Sign() != 0 {
				r = new(big.Int).Rem(xv, yv)
			}
		case "&":
			r = new(big.Int).And(xv, yv)
		case "|":
			r = new(big.Int).Or(xv, yv)
		case "^":
			r = new(big.Int).Xor(xv, yv)
		case "&^":
			r = new(big.Int).AndNot(xv, yv)
		}
		if r != nil {
			if a.Mode == ModeBV {
				return bvLit(r, k.W), nil
			}
			return intLit(r), nil
		}
	}
	if a.Mode == ModeBV {
		var bop string
		switch op {
		case "+":
			bop = "bvadd"
		case "-":
			bop = "bvsub"
		case "*":
			bop = "bvmul"
		case "/":
			if k.Signed {
				bop = "bvsdiv"
			} else {
				bop = "bvudiv"
			}
		case "%":
			if k.Signed {
				bop = "bvsrem"
			} else {
				bop = "bvurem"
			}
		case "&":
			bop = "bvand"
		case "|":
			bop = "bvor"
		case "^":
			bop = "bvxor"
		case "&^":
			return app(sort, "bvand", x, app(sort, "bvnot", y)), nil
		default:
			return Term{}, fmt.Errorf("unsupported bv op %s", op)
		}
		return app(sort, bop, x, y), nil
	}
	switch op {
	case "+", "-", "*":
		if op == "*" && x.C == nil && y.C == nil {
			return app(sort, "*", x, y), nil // nonlinear
		}
		if op == "+" && y.C != nil && y.C.Sign() == 0 {
			return x, nil
		}
		return app(sort, op, x, y), nil
	case "/":
		return app(sort, "tdiv", x, y), nil
	case "%":
		return app(sort, "tmod", x, y), nil
	case "&":
		// x & (2^n - 1) == x mod 2^n (valid for any x in two's complement, result non-negative)
		if y.C != nil {
			if n, ok := pow2m1(y.C); ok {
				return app(sort, "mod", x, intLit(new(big.Int).Lsh(big.NewInt(1), uint(n)))), nil
			}
		}
		if x.C != nil {
			if n, ok := pow2m1(x.C); ok {
				return app(sort, "mod", y, intLit(new(big.Int).Lsh(big.NewInt(1), uint(n)))), nil
			}
		}
		return app(sort, "int_and", x, y), nil
	case "|":
		return app(sort, "int_or", x, y), nil
	case "^":
		return app(sort, "int_xor", x, y), nil
	case "&^":
		return app(sort, "int_andnot", x, y), nil
	}
	return Term{}, fmt.Errorf("unsupported int op %s", op)
}

func pow2m1(v *big.Int) (int, bool) {
	if v.Sign() <= 0 {
		return 0, false
	}
	n := v.BitLen()
	if new(big.Int).Add(v, big.NewInt(1)).BitLen() == n+1 && v.Cmp(mask(n)) == 0 {
		return n, true
	}
	return 0, false
}

// Shift: op "<<" or ">>"; y is the (unsigned or checked non-negative) count of kind yk.
func (a Arith) Shift(op string, x, y Term, k, yk IntKind) (Term, error) {
	sort := a.Sort(k)
	if x.C != nil && y.C != nil {
		xv := a.value(x, k)
		n := a.value(y, yk)
		if n.Sign() >= 0 {
			var r *big.Int
			if n.Cmp(big.NewInt(int64(k.W))) >= 0 {
				if op == "<<" || xv.Sign() >= 0 {
					r = big.NewInt(0)
				} else {
					r = big.NewInt(-1)
				}
			} else if op == "<<" {
				r = new(big.Int).Lsh(xv, uint(n.Int64()))
			} else {
				r = new(big.Int).Rsh(xv, uint(n.Int64()))
			}
			if a.Mode == ModeBV {
				return bvLit(r, k.W), nil
			}
			if op == "<<" {
				// mathematical; overflow handled by caller
				return intLit(r), nil
			}
			return intLit(r), nil
		}
	}
	if a.Mode == ModeBV {
		// bring count to width of x; counts >= W give 0 / sign as bvshl/bvlshr/bvashr do
		// when the count is representable; saturate otherwise.
		var cnt Term
		switch {
		case yk.W == k.W:
			cnt = y
		case yk.W < k.W:
			cnt = app(sort, fmt.Sprintf("(_ zero_extend %d)", k.W-yk.W), y)
		default:
			// yk.W > k.W: saturate
			low := app(sort, fmt.Sprintf("(_ extract %d 0)", k.W-1), y)
			big_ := app(SBool, "bvuge", y, bvLit(big.NewInt(int64(k.W)), yk.W))
			cnt = Ite(big_, bvLit(big.NewInt(int64(k.W)), k.W), low)
		}
		switch {
		case op == "<<":
			return app(sort, "bvshl", x, cnt), nil
		case k.Signed:
			return app(sort, "bvashr", x, cnt), nil
		default:
			return app(sort, "bvlshr", x, cnt), nil
		}
	}
	if y.C != nil && y.C.Sign() >= 0 && y.C.Cmp(big.NewInt(512)) < 0 {
		p := intLit(new(big.Int).Lsh(big.NewInt(1), uint(y.C.Int64())))
		if op == "<<" {
			return app(sort, "*", x, p), nil
		}
		return app(sort, "div", x, p), nil // floor division == arithmetic shift
	}
	if op == "<<" {
		return app(sort, "*", x, app(SInt, "pow2", y)), nil
	}
	return app(sort, "div", x, app(SInt, "pow2", y)), nil
}

func (a Arith) Neg(x Term, k IntKind) Term {
	if x.C != nil {
		r := new(big.Int).Neg(a.value(x, k))
		if a.Mode == ModeBV {
			return bvLit(r, k.W)
		}
		return intLit(r)
	}
	if a.Mode == ModeBV {
		return app(a.Sort(k), "bvneg", x)
	}
	return app(SInt, "-", x)
}

// Compl is Go's unary ^.
func (a Arith) Compl(x Term, k IntKind) Term {
	if a.Mode == ModeBV {
		if x.C != nil {
			return bvLit(new(big.Int).Xor(x.C, mask(k.W)), k.W)
		}
		return app(a.Sort(k), "bvnot", x)
	}
	if k.Signed {
		// ^x == -x-1
		return app(SInt, "-", app(SInt, "-", x), intLit64(1))
	}
	return app(SInt, "-", intLit(k.max()), x)
}

// Convert between integer kinds with Go's wrap-around semantics.
func (a Arith) Convert(x Term, from, to IntKind) Term {
	if x.C != nil {
		v := a.value(x, from)
		r := a.wrapConst(v, to)
		if a.Mode == ModeBV {
			return bvLit(r, to.W)
		}
		return intLit(r)
	}
	if a.Mode == ModeBV {
		switch {
		case to.W == from.W:
			return Term{S: x.S, Sort: bvSort(to.W)}
		case to.W < from.W:
			return app(bvSort(to.W), fmt.Sprintf("(_ extract %d 0)", to.W-1), x)
		case from.Signed:
			return app(bvSort(to.W), fmt.Sprintf("(_ sign_extend %d)", to.W-from.W), x)
		default:
			return app(bvSort(to.W), fmt.Sprintf("(_ zero_extend %d)", to.W-from.W), x)
		}
	}
	// Int mode: value preserved if range of from fits in to
	if from.min().Cmp(to.min()) >= 0 && from.max().Cmp(to.max()) <= 0 {
		return x
	}
	m := intLit(new(big.Int).Lsh(big.NewInt(1), uint(to.W)))
	if !to.Signed {
		return app(SInt, "mod", x, m)
	}
	h := intLit(new(big.Int).Lsh(big.NewInt(1), uint(to.W-1)))
	return app(SInt, "-", app(SInt, "mod", app(SInt, "+", x, h), m), h)
}

// Preamble definitions used by Int mode.
const intPreamble = `
(define-fun tdiv ((a Int) (b Int)) Int (ite (>= a 0) (ite (> b 0) (div a b) (- (div a (- b)))) (ite (> b 0) (- (div (- a) b)) (div (- a) (- b)))))
(define-fun tmod ((a Int) (b Int)) Int (- a (* b (tdiv a b))))
(declare-fun pow2 (Int) Int)
(declare-fun int_and (Int Int) Int)
(declare-fun int_or (Int Int) Int)
(declare-fun int_xor (Int Int) Int)
(declare-fun int_andnot (Int Int) Int)
`
