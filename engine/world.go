package main

// VC context: declarations, trace, values, locations, state, heap access.

import (
	"fmt"
	"go/token"
	"go/types"
	"math/big"
	"regexp"
	"sort"
	"strings"

	"golang.org/x/tools/go/ssa"
)

type Unsupported struct{ Msg string }

func (u *Unsupported) Error() string { return "unsupported: " + u.Msg }

func unsupported(f string, a ...interface{}) error { return &Unsupported{fmt.Sprintf(f, a...)} }

type Obligation struct {
	Name      string
	Kind      string
	Goal      Term // already includes the path condition
	TraceLen  int
	Pos       token.Position
	ExpectSat bool
	Text      string // human-readable clause text
	Func      string
	ModelVars []ModelVar
	Claimed   bool
	// for replay: the terms of the results and of the byte heap at the exit this obligation speaks about
	ResTerms []Val
	ExitE    string
	EntryE   string
}

type ModelVar struct {
	Name string // human name
	Term string // smt term to evaluate
}

type VC struct {
	eng       *Engine
	ar        Arith
	decls     []string
	declSet   map[string]bool
	trace     []string
	obls      []*Obligation
	fresh     int
	fnName    string
	tids      map[string]int
	tidTypes  []types.Type
	trusted   map[string]bool // trusted things actually used
	dropped   map[string]bool
	structs   map[string]*types.Struct
	dry       int // >0 while in a dry run (no obligations recorded)
	strLits   map[string]Term
	oblNames  map[string]int
	cellSeq   int
	cellIDs   map[*ssa.Alloc]int
	anonNames map[string]string
	isLemma   bool
	wlog      *writeLog
	lastSk    map[string][]skolem
	epochSeq  int
	inputs    []ModelVar
	bseqExt   bool
}

func newVC(eng *Engine, mode Mode, fnName string) *VC {
	vc := &VC{eng: eng, ar: Arith{mode}, declSet: map[string]bool{}, fnName: fnName, tids: map[string]int{},
		trusted: map[string]bool{}, dropped: map[string]bool{}, structs: map[string]*types.Struct{}, strLits: map[string]Term{}, oblNames: map[string]int{}, anonNames: map[string]string{}, cellIDs: map[*ssa.Alloc]int{}, lastSk: map[string][]skolem{}}
	idx := vc.ar.IdxSort()
	vc.decl("sort:Slice", fmt.Sprintf("(declare-datatypes ((Slice 0)) (((mk-slice (s-ref Int) (s-off %s) (s-len %s) (s-cap %s)))))", idx, idx, idx))
	vc.decl("sort:Iface", "(declare-datatypes ((Iface 0)) (((mk-iface (i-typ Int) (i-val Int)))))")
	vc.decl("sort:Str", "(declare-sort Str 0)")
	vc.decl("sort:Float", "(declare-sort Float 0)")
	vc.decl("sort:BSeq", "(declare-sort BSeq 0)")
	vc.decl("fun:gs.len", fmt.Sprintf("(declare-fun gs.len (Str) %s)", idx))
	vc.decl("fun:gs.at", fmt.Sprintf("(declare-fun gs.at (Str %s) %s)", idx, vc.ar.Sort(IntKind{8, false})))
	return vc
}

// setHeap assigns a heap map. field >= 0 says that only that top-level field of the
// struct-valued entries was written (recorded while a loop body is probed, so that the
// loop havoc can keep the other fields).
func (vc *VC) setHeap(st *State, key string, t Term, field int) {
	st.heap[key] = t
	if vc.wlog != nil {
		if field < 0 {
			vc.wlog.whole[key] = true
		} else {
			if vc.wlog.fields[key] == nil {
				vc.wlog.fields[key] = map[int]bool{}
			}
			vc.wlog.fields[key][field] = true
		}
	}
}

type skolem struct {
	name  string
	arity int
	sorts string
}

type writeLog struct {
	whole  map[string]bool
	fields map[string]map[int]bool
}

func (vc *VC) decl(key, text string) {
	if vc.declSet[key] {
		return
	}
	vc.declSet[key] = true
	vc.decls = append(vc.decls, text)
}

func (vc *VC) assert(t Term) {
	if t.B == 1 {
		return
	}
	vc.trace = append(vc.trace, "(assert "+t.S+")")
}

func (vc *VC) assume(pc, t Term) { vc.assert(Implies(pc, t)) }

func (vc *VC) freshName(hint string) string {
	vc.fresh++
	hint = sanitize(hint)
	return fmt.Sprintf("%s!%d", hint, vc.fresh)
}

func sanitize(s string) string {
	var sb strings.Builder
	for _, c := range s {
		switch {
		case c >= 'a' && c <= 'z', c >= 'A' && c <= 'Z', c >= '0' && c <= '9', c == '_', c == '.', c == '$':
			sb.WriteRune(c)
		default:
			sb.WriteByte('_')
		}
	}
	if sb.Len() == 0 {
		return "v"
	}
	return sb.String()
}

func (vc *VC) freshConst(hint, sort string) Term {
	n := vc.freshName(hint)
	vc.decls = append(vc.decls, fmt.Sprintf("(declare-const %s %s)", n, sort))
	return Term{S: n, Sort: sort}
}

// bind names a compound term so later uses stay small.
func (vc *VC) bind(hint string, t Term) Term {
	if t.C != nil || t.B != 0 || !strings.HasPrefix(t.S, "(") || len(t.S) < 24 {
		return t
	}
	c := vc.freshConst(hint, t.Sort)
	vc.trace = append(vc.trace, "(assert (= "+c.S+" "+t.S+"))")
	return c
}

func (vc *VC) oblName(base string) string {
	n := vc.oblNames[base]
	vc.oblNames[base] = n + 1
	if n == 0 {
		return base
	}
	return fmt.Sprintf("%s~%d", base, n+1)
}

func (vc *VC) oblige(kind, name string, pc, goal Term, pos token.Position, text string) {
	if vc.dry > 0 {
		return
	}
	g := Implies(pc, goal)
	o := &Obligation{Name: vc.oblName(name), Kind: kind, Goal: g, TraceLen: len(vc.trace), Pos: pos, Text: text, Func: vc.fnName, Claimed: true}
	vc.obls = append(vc.obls, o)
}

// ---------------------------------------------------------------------------
// Types and sorts

func intKindOf(t types.Type) (IntKind, bool) {
	b, ok := t.Underlying().(*types.Basic)
	if !ok {
		return IntKind{}, false
	}
	switch b.Kind() {
	case types.Int8:
		return IntKind{8, true}, true
	case types.Int16:
		return IntKind{16, true}, true
	case types.Int32:
		return IntKind{32, true}, true
	case types.Int64, types.Int, types.UntypedInt, types.UntypedRune:
		return IntKind{64, true}, true
	case types.Uint8:
		return IntKind{8, false}, true
	case types.Uint16:
		return IntKind{16, false}, true
	case types.Uint32:
		return IntKind{32, false}, true
	case types.Uint64, types.Uint, types.Uintptr:
		return IntKind{64, false}, true
	}
	return IntKind{}, false
}

var kInt = IntKind{64, true}

func isBigIntPtr(t types.Type) bool {
	p, ok := t.Underlying().(*types.Pointer)
	if !ok {
		return false
	}
	n, ok := p.Elem().(*types.Named)
	return ok && n.Obj().Pkg() != nil && n.Obj().Pkg().Path() == "math/big" && n.Obj().Name() == "Int"
}

var byteRuneRe = regexp.MustCompile(`\b(byte|rune)\b`)

func typeKey(t types.Type) string {
	s := types.TypeString(t, func(p *types.Package) string { return p.Path() })
	return byteRuneRe.ReplaceAllStringFunc(s, func(m string) string {
		if m == "byte" {
			return "uint8"
		}
		return "int32"
	})
}

func (vc *VC) structSort(t types.Type) string {
	st := t.Underlying().(*types.Struct)
	var name string
	if n, ok := t.(*types.Named); ok {
		name = "S_" + sanitize(typeKey(n))
	} else {
		k := typeKey(st)
		name = "S_anon_" + sanitize(k)
		if len(name) > 80 {
			if n, ok := vc.anonNames[k]; ok {
				name = n
			} else {
				name = fmt.Sprintf("S_anon_%d", len(vc.anonNames))
				vc.anonNames[k] = name
			}
		}
	}
	if _, ok := vc.structs[name]; ok {
		return name
	}
	vc.structs[name] = st
	// declare field sorts first
	var fields []string
	for i := 0; i < st.NumFields(); i++ {
		fs := vc.sortOf(st.Field(i).Type())
		fields = append(fields, fmt.Sprintf("(%s.%s %s)", name, fieldName(st, i), fs))
	}
	if len(fields) == 0 {
		vc.decl("sort:"+name, fmt.Sprintf("(declare-datatypes ((%s 0)) (((mk-%s))))", name, name))
	} else {
		vc.decl("sort:"+name, fmt.Sprintf("(declare-datatypes ((%s 0)) (((mk-%s %s))))", name, name, strings.Join(fields, " ")))
	}
	return name
}

func fieldName(st *types.Struct, i int) string {
	n := st.Field(i).Name()
	if n == "_" {
		return fmt.Sprintf("blank%d", i)
	}
	return n
}

func (vc *VC) sortOf(t types.Type) string {
	switch u := t.Underlying().(type) {
	case *types.Basic:
		if k, ok := intKindOf(u); ok {
			return vc.ar.Sort(k)
		}
		switch {
		case u.Info()&types.IsBoolean != 0:
			return SBool
		case u.Info()&types.IsString != 0:
			return "Str"
		case u.Info()&types.IsFloat != 0, u.Info()&types.IsComplex != 0:
			return "Float"
		case u.Kind() == types.UnsafePointer:
			return SInt
		case u.Kind() == types.UntypedNil:
			return SInt
		}
	case *types.Pointer, *types.Map, *types.Chan, *types.Signature:
		return SInt
	case *types.Slice:
		return "Slice"
	case *types.Interface:
		return "Iface"
	case *types.Struct:
		return vc.structSort(t)
	case *types.Array:
		return arraySort(vc.ar.IdxSort(), vc.sortOf(u.Elem()))
	case *types.Tuple:
		return "Tuple"
	}
	return "Unknown_" + sanitize(t.String())
}

func (vc *VC) idx(v int64) Term { return vc.ar.Lit64(v, kInt) }

// elemIndex is the absolute index off+i of slice element i. In Int mode it is written with an
// uninterpreted function elt(off, i) axiomatised as off+i, so that quantifier triggers over slice
// elements contain no arithmetic (E-matching cannot use patterns with +).
func (vc *VC) elemIndex(off, i Term) Term {
	if off.C != nil && i.C != nil || vc.ar.Mode == ModeBV {
		t, _ := vc.ar.Bin("+", off, i, kInt)
		return t
	}
	if off.C != nil && off.C.Sign() == 0 {
		return i
	}
	vc.decl("fun:elt", "(declare-fun elt (Int Int) Int)\n(assert (forall ((o Int) (i Int)) (! (= (elt o i) (+ o i)) :pattern ((elt o i)))))")
	return app(SInt, "elt", off, i)
}

func (vc *VC) zeroOf(t types.Type) Term {
	switch u := t.Underlying().(type) {
	case *types.Basic:
		if k, ok := intKindOf(u); ok {
			return vc.ar.Lit64(0, k)
		}
		switch {
		case u.Info()&types.IsBoolean != 0:
			return TFalse
		case u.Info()&types.IsString != 0:
			return vc.strLit("")
		case u.Info()&types.IsFloat != 0, u.Info()&types.IsComplex != 0:
			vc.decl("const:float.zero", "(declare-const float.zero Float)")
			return raw("float.zero", "Float")
		default:
			return intLit64(0)
		}
	case *types.Pointer, *types.Map, *types.Chan, *types.Signature:
		return intLit64(0)
	case *types.Slice:
		z := vc.idx(0)
		return app("Slice", "mk-slice", intLit64(0), z, z, z)
	case *types.Interface:
		return raw("(mk-iface 0 0)", "Iface")
	case *types.Struct:
		name := vc.structSort(t)
		if u.NumFields() == 0 {
			return raw("mk-"+name, name)
		}
		var args []Term
		for i := 0; i < u.NumFields(); i++ {
			args = append(args, vc.zeroOf(u.Field(i).Type()))
		}
		return app(name, "mk-"+name, args...)
	case *types.Array:
		s := vc.sortOf(t)
		return vc.constArray(s, vc.zeroOf(u.Elem()))
	}
	return vc.freshConst("zero", vc.sortOf(t))
}

func (vc *VC) strLit(s string) Term {
	if t, ok := vc.strLits[s]; ok {
		return t
	}
	name := fmt.Sprintf("gs.lit%d", len(vc.strLits))
	vc.decls = append(vc.decls, fmt.Sprintf("(declare-const %s Str) ; %q", name, s))
	t := raw(name, "Str")
	// length and (for short literals) characters; distinctness from other literals
	vc.decls = append(vc.decls, fmt.Sprintf("(assert (= (gs.len %s) %s))", name, vc.idx(int64(len(s))).S))
	if len(s) <= 256 {
		for i := 0; i < len(s); i++ {
			vc.decls = append(vc.decls, fmt.Sprintf("(assert (= (gs.at %s %s) %s))", name, vc.idx(int64(i)).S, vc.ar.Lit64(int64(s[i]), IntKind{8, false}).S))
		}
	}
	for o, ot := range vc.strLits {
		if o != s {
			vc.decls = append(vc.decls, fmt.Sprintf("(assert (not (= %s %s)))", name, ot.S))
		}
	}
	vc.strLits[s] = t
	return t
}

// litTable is the contents of a string literal as an SMT array term.
func (vc *VC) litTable(lit string) Term {
	cnt := map[byte]int{}
	best := lit[0]
	for i := 0; i < len(lit); i++ {
		cnt[lit[i]]++
		if cnt[lit[i]] > cnt[best] {
			best = lit[i]
		}
	}
	bk := IntKind{8, false}
	as := arraySort(vc.ar.IdxSort(), vc.ar.Sort(bk))
	t := vc.constArray(as, vc.ar.Lit64(int64(best), bk))
	for i := 0; i < len(lit); i++ {
		if lit[i] != best {
			t = Store(t, vc.idx(int64(i)), vc.ar.Lit64(int64(lit[i]), bk))
		}
	}
	return t
}

// litOf reports the Go string a literal term stands for.
func (vc *VC) litOf(t Term) (string, bool) {
	for s, lt := range vc.strLits {
		if lt.S == t.S {
			return s, true
		}
	}
	return "", false
}

func (vc *VC) tid(t types.Type) Term {
	k := typeKey(t)
	id, ok := vc.tids[k]
	if !ok {
		id = len(vc.tids) + 1
		vc.tids[k] = id
		vc.tidTypes = append(vc.tidTypes, t)
	}
	return intLit64(int64(id))
}

func pointerShaped(t types.Type) bool {
	switch t.Underlying().(type) {
	case *types.Pointer, *types.Map, *types.Chan, *types.Signature:
		return true
	}
	if b, ok := t.Underlying().(*types.Basic); ok && b.Kind() == types.UnsafePointer {
		return true
	}
	return false
}

// box/unbox for non-pointer-shaped values stored in interfaces
func (vc *VC) boxFn(t types.Type) (string, string) {
	s := vc.sortOf(t)
	k := sanitize(typeKey(t))
	b, u := "box_"+k, "unbox_"+k
	vc.decl("fun:"+b, fmt.Sprintf("(declare-fun %s (%s) Int)\n(declare-fun %s (Int) %s)\n(assert (forall ((x %s)) (! (= (%s (%s x)) x) :pattern ((%s x)))))", b, s, u, s, s, u, b, b))
	return b, u
}

func (vc *VC) makeIface(v Term, t types.Type) Term {
	if _, ok := t.Underlying().(*types.Interface); ok {
		return v
	}
	if pointerShaped(t) {
		return app("Iface", "mk-iface", vc.tid(t), v)
	}
	b, _ := vc.boxFn(t)
	return app("Iface", "mk-iface", vc.tid(t), app(SInt, b, v))
}

// ---------------------------------------------------------------------------
// Values and locations

type LocKind int

const (
	LCell LocKind = iota
	LField
	LElem
	LHeapCell
)

type PathEl struct {
	Field int
	Name  string
	Idx   *Term
	From  types.Type // container type
}

type Loc struct {
	Kind  LocKind
	Cell  int
	Key   string
	Ref   Term
	Idx   Term
	Path  []PathEl
	RootT types.Type // type stored at the root (cell content / field / element)
	Frozen *Term     // sentinel global: the (immutable, non-nil) value every load yields
}

func (l *Loc) with(pe PathEl) *Loc {
	n := *l
	n.Path = append(append([]PathEl{}, l.Path...), pe)
	return &n
}

type Closure struct {
	Fn       *ssa.Function
	Bindings []Val
}

type Val struct {
	T     Term
	Loc   *Loc
	Tuple []Val
	Clo   *Closure
	Typ   types.Type
}

func (v Val) isZero() bool { return v.T.S == "" && v.Loc == nil && v.Tuple == nil && v.Clo == nil }

type deferred struct {
	call *ssa.CallCommon
	args []Val
	fnv  Val
	pos  token.Pos
}

type State struct {
	pc     Term
	regs   map[ssa.Value]Val
	cells  map[int]Val
	cellOf map[*ssa.Alloc]int
	heap   map[string]Term
	defers []deferred
	ghost  map[string]Term
	epoch  int
	private []modTarget // storage of locals that cannot be reached by unknown code
}

func newState() *State {
	return &State{pc: TTrue, regs: map[ssa.Value]Val{}, cells: map[int]Val{}, cellOf: map[*ssa.Alloc]int{}, heap: map[string]Term{}, ghost: map[string]Term{}}
}

func (s *State) clone() *State {
	n := &State{pc: s.pc, regs: make(map[ssa.Value]Val, len(s.regs)), cells: make(map[int]Val, len(s.cells)),
		cellOf: make(map[*ssa.Alloc]int, len(s.cellOf)), heap: make(map[string]Term, len(s.heap)), ghost: make(map[string]Term, len(s.ghost))}
	for k, v := range s.regs {
		n.regs[k] = v
	}
	for k, v := range s.cells {
		n.cells[k] = v
	}
	for k, v := range s.cellOf {
		n.cellOf[k] = v
	}
	for k, v := range s.heap {
		n.heap[k] = v
	}
	for k, v := range s.ghost {
		n.ghost[k] = v
	}
	n.defers = append([]deferred{}, s.defers...)
	n.epoch = s.epoch
	n.private = append([]modTarget{}, s.private...)
	return n
}

// heapSort returns the SMT sort of the heap map with the given key.
type heapInfo struct {
	sort string
}

func (vc *VC) heapGet(st *State, key, sort string) Term {
	if t, ok := st.heap[key]; ok {
		return t
	}
	return vc.heapAtEpoch(st.epoch, key, sort)
}

func (vc *VC) heapAtEpoch(epoch int, key, sort string) Term {
	name := fmt.Sprintf("H%d_%s", epoch, sanitize(key))
	vc.decl(fmt.Sprintf("heap%d:%s", epoch, key), fmt.Sprintf("(declare-const %s %s)", name, sort))
	return Term{S: name, Sort: sort}
}

func (vc *VC) heapInitial(key, sort string) Term { return vc.heapAtEpoch(0, key, sort) }

func (vc *VC) fieldKey(structT types.Type, i int) (string, string) {
	st := structT.Underlying().(*types.Struct)
	var tn string
	if n, ok := structT.(*types.Named); ok {
		tn = typeKey(n)
	} else {
		tn = typeKey(st)
	}
	key := "F:" + tn + "." + fieldName(st, i)
	return key, arraySort(SInt, vc.sortOf(st.Field(i).Type()))
}

func (vc *VC) elemKey(elem types.Type) (string, string) {
	es := vc.sortOf(elem)
	// key by element type so that differently typed slices never alias
	return "E:" + typeKey(elem), arraySort(SInt, arraySort(vc.ar.IdxSort(), es))
}

func (vc *VC) cellKey(t types.Type) (string, string) {
	return "C:" + typeKey(t), arraySort(SInt, vc.sortOf(t))
}

// afld gives the Ref of the array object embedded in struct field i of object ref.
func (vc *VC) afld(structT types.Type, i int, ref Term) Term {
	key, _ := vc.fieldKey(structT, i)
	fn := "afld_" + sanitize(key[2:])
	vc.decl("fun:"+fn, fmt.Sprintf("(declare-fun %s (Int) Int)\n(declare-fun %s_inv (Int) Int)\n(assert (forall ((x Int)) (! (and (= (%s_inv (%s x)) x) (not (= (%s x) 0)) (= (ref.kind (%s x)) %d) (not (ref.iptr (%s x)))) :pattern ((%s x)))))",
		fn, fn, fn, fn, fn, fn, vc.kindID(fn), fn, fn))
	return app(SInt, fn, ref)
}

func (vc *VC) kindID(name string) int {
	vc.decl("fun:ref.kind", "(declare-fun ref.kind (Int) Int)\n(declare-fun ref.iptr (Int) Bool)")
	k := "kind:" + name
	if id, ok := vc.tids[k]; ok {
		return id
	}
	id := len(vc.tids) + 1
	vc.tids[k] = id
	return id
}

// locRef gives a canonical reference term for an interior pointer (injective in the owner).
func (vc *VC) locRef(l *Loc) (Term, error) {
	var t Term
	switch l.Kind {
	case LField:
		fn := "fld_" + sanitize(l.Key[2:])
		// injective, non-nil, of a kind of its own (never an object the function allocates, never an
		// embedded array) and marked ref.iptr, which the well-formedness of pointer values admits
		vc.decl("fun:"+fn, fmt.Sprintf("(declare-fun %s (Int) Int)\n(declare-fun %s_inv (Int) Int)\n(assert (forall ((x Int)) (! (and (= (%s_inv (%s x)) x) (> (%s x) 0) (= (ref.kind (%s x)) %d) (ref.iptr (%s x))) :pattern ((%s x)))))",
			fn, fn, fn, fn, fn, fn, vc.kindID(fn), fn, fn))
		t = app(SInt, fn, l.Ref)
	case LHeapCell:
		t = l.Ref
	default:
		return Term{}, unsupported("reference term for this kind of interior pointer")
	}
	for _, pe := range l.Path {
		if pe.Idx != nil {
			return Term{}, unsupported("reference term for a pointer into an array value")
		}
		fn := "pth_" + sanitize(typeKey(pe.From)) + "_" + pe.Name
		vc.decl("fun:"+fn, fmt.Sprintf("(declare-fun %s (Int) Int)\n(declare-fun %s_inv (Int) Int)\n(assert (forall ((x Int)) (! (and (= (%s_inv (%s x)) x) (> (%s x) 0) (= (ref.kind (%s x)) %d) (ref.iptr (%s x))) :pattern ((%s x)))))",
			fn, fn, fn, fn, fn, fn, vc.kindID(fn), fn, fn))
		t = app(SInt, fn, t)
	}
	return t, nil
}

// navigate reads through a path inside a value.
func (vc *VC) navigate(v Term, path []PathEl) Term {
	for _, pe := range path {
		if pe.Idx != nil {
			v = Select(v, *pe.Idx)
		} else {
			st := pe.From.Underlying().(*types.Struct)
			name := vc.structSort(pe.From)
			v = app(vc.sortOf(st.Field(pe.Field).Type()), name+"."+fieldName(st, pe.Field), v)
		}
	}
	return v
}

// update writes nv at path inside v, returning the new outer value.
func (vc *VC) update(v Term, path []PathEl, nv Term) Term {
	if len(path) == 0 {
		return nv
	}
	pe := path[0]
	if pe.Idx != nil {
		inner := Select(v, *pe.Idx)
		return Store(v, *pe.Idx, vc.update(inner, path[1:], nv))
	}
	st := pe.From.Underlying().(*types.Struct)
	name := vc.structSort(pe.From)
	var args []Term
	for i := 0; i < st.NumFields(); i++ {
		f := app(vc.sortOf(st.Field(i).Type()), name+"."+fieldName(st, i), v)
		if i == pe.Field {
			f = vc.update(f, path[1:], nv)
		}
		args = append(args, f)
	}
	return app(name, "mk-"+name, args...)
}

func (vc *VC) locType(l *Loc) types.Type {
	t := l.RootT
	for _, pe := range l.Path {
		if pe.Idx != nil {
			t = pe.From.Underlying().(*types.Array).Elem()
		} else {
			t = pe.From.Underlying().(*types.Struct).Field(pe.Field).Type()
		}
	}
	return t
}

func (vc *VC) loadLoc(st *State, l *Loc) (Val, error) {
	t := vc.locType(l)
	var root Term
	switch l.Kind {
	case LCell:
		cv, ok := st.cells[l.Cell]
		if !ok {
			return Val{}, fmt.Errorf("internal: cell %d not live", l.Cell)
		}
		if len(l.Path) == 0 {
			return cv, nil
		}
		root = cv.T
	case LField, LHeapCell:
		if l.Frozen != nil && len(l.Path) == 0 {
			return Val{T: *l.Frozen, Typ: t}, nil
		}
		_, vs := arraySorts(vc.heapSortOf(l))
		_ = vs
		h := vc.heapGet(st, l.Key, vc.heapSortOf(l))
		root = Select(h, l.Ref)
	case LElem:
		h := vc.heapGet(st, l.Key, vc.heapSortOf(l))
		root = Select(Select(h, l.Ref), l.Idx)
	}
	v := vc.navigate(root, l.Path)
	return Val{T: v, Typ: t}, nil
}

func (vc *VC) heapSortOf(l *Loc) string {
	switch l.Kind {
	case LField, LHeapCell:
		return arraySort(SInt, vc.sortOf(l.RootT))
	case LElem:
		return arraySort(SInt, arraySort(vc.ar.IdxSort(), vc.sortOf(l.RootT)))
	}
	return ""
}

func (vc *VC) storeLoc(st *State, l *Loc, v Val) error {
	switch l.Kind {
	case LCell:
		if len(l.Path) == 0 {
			st.cells[l.Cell] = v
			return nil
		}
		cv, ok := st.cells[l.Cell]
		if !ok {
			return fmt.Errorf("internal: cell %d not live", l.Cell)
		}
		if v.Loc != nil || v.Clo != nil {
			return unsupported("storing a pointer/closure inside a local aggregate")
		}
		nv := vc.update(cv.T, l.Path, v.T)
		st.cells[l.Cell] = Val{T: vc.bind("cell", nv), Typ: cv.Typ}
		return nil
	}
	if pt, ok := vc.absPtr(v.Loc); ok {
		v = Val{T: pt, Typ: v.Typ}
	}
	if v.Loc != nil {
		return unsupported("interior pointer stored to the heap")
	}
	if v.Clo != nil {
		v = Val{T: vc.freshConst("closure", SInt), Typ: v.Typ}
	}
	hs := vc.heapSortOf(l)
	h := vc.heapGet(st, l.Key, hs)
	switch l.Kind {
	case LField, LHeapCell:
		nv := v.T
		if len(l.Path) > 0 {
			nv = vc.update(Select(h, l.Ref), l.Path, v.T)
		}
		vc.setHeap(st, l.Key, vc.bind("H", Store(h, l.Ref, nv)), pathField(l.Path))
	case LElem:
		inner := Select(h, l.Ref)
		nv := v.T
		if len(l.Path) > 0 {
			nv = vc.update(Select(inner, l.Idx), l.Path, v.T)
		}
		vc.setHeap(st, l.Key, vc.bind("E", Store(h, l.Ref, Store(inner, l.Idx, nv))), pathField(l.Path))
	}
	return nil
}

// absPtr: &x.f for a struct-valued field f that leaves the function's direct control (stored in the
// heap, boxed in an interface): the pointer becomes an abstract reference determined by x (injective,
// non-nil). What is reached through it is NOT related to the value of x.f as the embedding object
// sees it (recorded as an assumption).
func (vc *VC) absPtr(l *Loc) (Term, bool) {
	if l == nil || l.Kind != LField || l.Frozen != nil {
		return Term{}, false
	}
	for _, pe := range l.Path {
		if pe.Idx != nil {
			return Term{}, false
		}
	}
	t, err := vc.locRef(l)
	if err != nil {
		return Term{}, false
	}
	if vc.dry == 0 {
		vc.trusted["pointer to the embedded struct field "+l.Key[2:]+" is handed out as an abstract reference; accesses through it are not related to the embedding object's view of that field"] = true
	}
	return t, true
}

// pathField: the top-level struct field a path starts with, or -1 (whole value).
func pathField(p []PathEl) int {
	if len(p) > 0 && p[0].Idx == nil {
		return p[0].Field
	}
	return -1
}

// loadObject reads a whole object of type t at reference ref (t struct, array or other).
func (vc *VC) loadObject(st *State, ref Term, t types.Type) (Term, error) {
	switch u := t.Underlying().(type) {
	case *types.Struct:
		name := vc.structSort(t)
		if u.NumFields() == 0 {
			return raw("mk-"+name, name), nil
		}
		var args []Term
		for i := 0; i < u.NumFields(); i++ {
			ft := u.Field(i).Type()
			if _, isArr := ft.Underlying().(*types.Array); isArr {
				a, err := vc.loadObject(st, vc.afld(t, i, ref), ft)
				if err != nil {
					return Term{}, err
				}
				args = append(args, a)
				continue
			}
			key, hs := vc.fieldKey(t, i)
			args = append(args, Select(vc.heapGet(st, key, hs), ref))
		}
		return app(name, "mk-"+name, args...), nil
	case *types.Array:
		key, hs := vc.elemKey(u.Elem())
		return Select(vc.heapGet(st, key, hs), ref), nil
	default:
		key, hs := vc.cellKey(t)
		vc.noteCellDeref(ref, t)
		return Select(vc.heapGet(st, key, hs), ref), nil
	}
}

// noteCellDeref records the aliasing assumption behind a load/store through a pointer to a
// non-struct value that the function did not create itself: the pointer is taken to address a
// standalone variable, never a struct field or slice element (interior pointers that the
// verified code creates itself are tracked exactly and never reach this path).
func (vc *VC) noteCellDeref(ref Term, t types.Type) {
	if vc.dry > 0 || strings.HasPrefix(ref.S, "new_") {
		return
	}
	vc.trusted["assumed: pointers to "+types.TypeString(t, nil)+" received from the heap or the caller address standalone variables, not struct fields or slice elements"] = true
}

func (vc *VC) storeObject(st *State, ref Term, t types.Type, v Term) error {
	switch u := t.Underlying().(type) {
	case *types.Struct:
		name := vc.structSort(t)
		for i := 0; i < u.NumFields(); i++ {
			ft := u.Field(i).Type()
			fv := app(vc.sortOf(ft), name+"."+fieldName(u, i), v)
			if _, isArr := ft.Underlying().(*types.Array); isArr {
				if err := vc.storeObject(st, vc.afld(t, i, ref), ft, fv); err != nil {
					return err
				}
				continue
			}
			key, hs := vc.fieldKey(t, i)
			vc.setHeap(st, key, vc.bind("H", Store(vc.heapGet(st, key, hs), ref, fv)), -1)
		}
	case *types.Array:
		key, hs := vc.elemKey(u.Elem())
		vc.setHeap(st, key, vc.bind("E", Store(vc.heapGet(st, key, hs), ref, v)), -1)
	default:
		key, hs := vc.cellKey(t)
		vc.noteCellDeref(ref, t)
		vc.setHeap(st, key, vc.bind("C", Store(vc.heapGet(st, key, hs), ref, v)), -1)
	}
	return nil
}

// allocRef returns a fresh, previously unallocated reference.
func (vc *VC) allocRef(st *State, hint string) Term {
	r := vc.freshConst(hint, SInt)
	as := arraySort(SInt, SBool)
	al := vc.heapGet(st, "$alloc", as)
	vc.decl("fun:ref.kind", "(declare-fun ref.kind (Int) Int)\n(declare-fun ref.iptr (Int) Bool)")
	vc.assert(And(Not(Eq(r, intLit64(0))), Not(Select(al, r)), Eq(app(SInt, "ref.kind", r), intLit64(0)), app(SBool, ">", r, intLit64(0))))
	vc.setHeap(st, "$alloc", vc.bind("alloc", Store(al, r, TTrue)), -1)
	return r
}

func (vc *VC) isAlloc(st *State, r Term) Term {
	al := vc.heapGet(st, "$alloc", arraySort(SInt, SBool))
	return Select(al, r)
}

// wf returns the well-formedness assumption for a value of type t.
func (vc *VC) wf(st *State, v Term, t types.Type, depth int) Term {
	switch u := t.Underlying().(type) {
	case *types.Basic:
		if k, ok := intKindOf(u); ok {
			return vc.ar.InRange(v, k)
		}
		if u.Info()&types.IsString != 0 {
			return vc.ar.Cmp(">=", app(vc.ar.IdxSort(), "gs.len", v), vc.idx(0), kInt)
		}
	case *types.Pointer, *types.Map, *types.Chan:
		vc.decl("fun:ref.kind", "(declare-fun ref.kind (Int) Int)\n(declare-fun ref.iptr (Int) Bool)")
		c := []Term{Or(Eq(v, intLit64(0)), vc.isAlloc(st, v)), app(SBool, ">=", v, intLit64(0))}
		if p, ok := u.(*types.Pointer); ok {
			if _, isArr := p.Elem().Underlying().(*types.Array); !isArr {
				c = append(c, Or(Eq(app(SInt, "ref.kind", v), intLit64(0)), app(SBool, "ref.iptr", v)))
			}
		}
		return And(c...)
	case *types.Slice:
		ref := app(SInt, "s-ref", v)
		off := app(vc.ar.IdxSort(), "s-off", v)
		ln := app(vc.ar.IdxSort(), "s-len", v)
		cp := app(vc.ar.IdxSort(), "s-cap", v)
		z := vc.idx(0)
		c := []Term{
			vc.ar.Cmp(">=", off, z, kInt), vc.ar.Cmp(">=", ln, z, kInt), vc.ar.Cmp(">=", cp, ln, kInt),
			Or(Eq(ref, intLit64(0)), vc.isAlloc(st, ref)),
			app(SBool, ">=", ref, intLit64(0)),
			Implies(Eq(ref, intLit64(0)), And(Eq(cp, z), Eq(off, z))),
		}
		if vc.ar.Mode == ModeBV {
			// off+cap does not wrap (objects are smaller than the address space)
			sum, _ := vc.ar.Bin("+", off, cp, kInt)
			c = append(c, vc.ar.Cmp(">=", sum, off, kInt))
		} else {
			c = append(c, vc.ar.InRange(off, kInt), vc.ar.InRange(ln, kInt), vc.ar.InRange(cp, kInt))
			sum, _ := vc.ar.Bin("+", off, cp, kInt)
			c = append(c, vc.ar.InRange(sum, kInt))
		}
		// a slice of elements of size s has at most MaxInt/s elements (it fits in the address space)
		if sz := types.SizesFor("gc", "amd64").Sizeof(u.Elem()); sz > 1 {
			lim := new(big.Int).Div(kInt.max(), big.NewInt(sz))
			sum, _ := vc.ar.Bin("+", off, cp, kInt)
			c = append(c, vc.ar.Cmp("<=", sum, vc.ar.Lit(lim, kInt), kInt))
		}
		return And(c...)
	case *types.Interface:
		typ, val := app(SInt, "i-typ", v), app(SInt, "i-val", v)
		return And(app(SBool, ">=", val, intLit64(0)), app(SBool, ">=", typ, intLit64(0)), Implies(Eq(typ, intLit64(0)), Eq(val, intLit64(0))))
	case *types.Struct:
		if depth > 2 {
			return TTrue
		}
		name := vc.structSort(t)
		var c []Term
		for i := 0; i < u.NumFields(); i++ {
			ft := u.Field(i).Type()
			if _, isArr := ft.Underlying().(*types.Array); isArr {
				continue
			}
			c = append(c, vc.wf(st, app(vc.sortOf(ft), name+"."+fieldName(u, i), v), ft, depth+1))
		}
		return And(c...)
	}
	return TTrue
}

func sortedKeys(m map[string]Term) []string {
	var ks []string
	for k := range m {
		ks = append(ks, k)
	}
	sort.Strings(ks)
	return ks
}

// constArray: the array of the given sort whose every element is v. cvc5 accepts "as const"
// only for value terms, so for elements of an uninterpreted sort (the empty string constant,
// structs holding one) a named array with a quantified definition is used instead.
func (vc *VC) constArray(sort string, v Term) Term {
	if !strings.Contains(v.S, "gs.lit") {
		return raw(fmt.Sprintf("((as const %s) %s)", sort, v.S), sort)
	}
	name := "carr_" + sanitize(sort)
	ks, _ := arraySorts(sort)
	vc.decl("constarr:"+sort, fmt.Sprintf("(declare-const %s %s)\n(assert (forall ((i %s)) (! (= (select %s i) %s) :pattern ((select %s i)))))", name, sort, ks, name, v.S, name))
	return raw(name, sort)
}
