package main

// Built-in models of a few library functions (exact semantics, no contract needed).

import (
	"go/token"
	"go/types"
)

type tokenPos = token.Pos

func registerModels(e *Engine) {
	e.models["bytes.Equal"] = func(x *Exec, fr *frame, st *State, args []Val, pos token.Pos) (Val, error) {
		return Val{T: x.vc.bind("beq", x.vc.bytesEqual(st, args[0].T, args[1].T)), Typ: types.Typ[types.Bool]}, nil
	}
}
