package main

// Replay of counterexamples on the real code (go test -overlay). Filled in per function kind.

type ReplayResult struct {
	Reproduced bool   `json:"reproduced"`
	Command    string `json:"command,omitempty"`
	Output     string `json:"output,omitempty"`
	Note       string `json:"note,omitempty"`
}

func tryReplay(verif string, e *Engine, j *job) *ReplayResult {
	return nil
}
