package main

// Replay of counterexamples on the real code.
//
// Scope: functions / methods whose parameters are integers, booleans, strings, byte slices or
// pointers to byte arrays (also as receiver) and whose results are integers, booleans, strings, byte
// slices or errors. For a failed `ensures` obligation with a model, the inputs are read from the
// model (get-value), the REAL function is run on them in an in-package test injected with
// `go test -overlay` (nothing is written into the repository), and the observed results are asserted
// into the very VC that failed: if it is still satisfiable the real execution violates the clause
// (reproduced); if not, the counterexample was an artefact of an abstraction (not reproduced).

import (
	"bytes"
	"context"
	"encoding/json"
	"fmt"
	"go/types"
	"math/big"
	"os"
	"os/exec"
	"path/filepath"
	"regexp"
	"strconv"
	"strings"
	"time"

	"golang.org/x/tools/go/ssa"
)

type ReplayResult struct {
	Reproduced bool              `json:"reproduced"`
	Command    string            `json:"command,omitempty"`
	Inputs     map[string]string `json:"inputs,omitempty"`
	Observed   string            `json:"observed,omitempty"`
	TestFile   string            `json:"test_file,omitempty"`
	Output     string            `json:"output,omitempty"`
	Note       string            `json:"note,omitempty"`
}

type rpParam struct {
	name string
	typ  types.Type
	term string
	kind string // int bool str bytes arrptr
	n    int64  // array length for arrptr
	// concrete
	ival  string
	bval  bool
	bytes []byte
	isNil bool
}

func rpKind(t types.Type) (string, int64) {
	switch u := t.Underlying().(type) {
	case *types.Basic:
		if u.Info()&types.IsInteger != 0 {
			return "int", 0
		}
		if u.Info()&types.IsBoolean != 0 {
			return "bool", 0
		}
		if u.Info()&types.IsString != 0 {
			return "str", 0
		}
	case *types.Slice:
		if b, ok := u.Elem().Underlying().(*types.Basic); ok && b.Kind() == types.Uint8 {
			return "bytes", 0
		}
	case *types.Pointer:
		if a, ok := u.Elem().Underlying().(*types.Array); ok {
			if b, ok := a.Elem().Underlying().(*types.Basic); ok && b.Kind() == types.Uint8 {
				return "arrptr", a.Len()
			}
		}
	case *types.Interface:
		if n, ok := t.(*types.Named); ok && n.Obj().Name() == "error" && n.Obj().Pkg() == nil {
			return "error", 0
		}
	}
	return "", 0
}

var getValRe = regexp.MustCompile(`\(\(([^()]*(?:\([^()]*\)[^()]*)*)\s+((?:#x[0-9a-fA-F]+)|(?:#b[01]+)|(?:-?\d+)|(?:\(- \d+\))|true|false)\)\)`)

// smtNum parses #x.. / decimal / (- n) into a decimal string (two's complement for signed bit-vectors).
func smtNum(v string, signedBits int) (string, bool) {
	v = strings.TrimSpace(v)
	if strings.HasPrefix(v, "#x") {
		u, err := strconv.ParseUint(v[2:], 16, 64)
		if err != nil {
			return "", false
		}
		if signedBits > 0 && signedBits <= 64 {
			w := uint(len(v[2:]) * 4)
			if w <= 64 && u>>(w-1) == 1 {
				if w == 64 {
					return strconv.FormatInt(int64(u), 10), true
				}
				return strconv.FormatInt(int64(u)-int64(1)<<w, 10), true
			}
		}
		return strconv.FormatUint(u, 10), true
	}
	if strings.HasPrefix(v, "(- ") {
		return "-" + strings.TrimSuffix(v[3:], ")"), true
	}
	if _, err := strconv.ParseInt(v, 10, 64); err == nil {
		return v, true
	}
	if _, err := strconv.ParseUint(v, 10, 64); err == nil {
		return v, true
	}
	return "", false
}

func runZ3Values(smt string, terms []string) (map[string]string, bool) {
	f, err := os.CreateTemp("", "govc-replay-*.smt2")
	if err != nil {
		return nil, false
	}
	defer os.Remove(f.Name())
	var sb strings.Builder
	sb.WriteString("(set-option :produce-models true)\n")
	sb.WriteString(smt)
	sb.WriteString("(check-sat)\n")
	for _, t := range terms {
		sb.WriteString("(get-value (" + t + "))\n")
	}
	_, _ = f.WriteString(sb.String())
	f.Close()
	ctx, cancel := context.WithTimeout(context.Background(), 40*time.Second)
	defer cancel()
	out, _ := exec.CommandContext(ctx, "z3-new", "-T:30", f.Name()).CombinedOutput()
	lines := strings.Split(string(out), "\n")
	if len(lines) == 0 || strings.TrimSpace(lines[0]) != "sat" {
		return nil, false
	}
	res := map[string]string{}
	body := strings.Join(lines[1:], " ")
	// values come back in order, one "((term value))" per get-value
	idx := 0
	for _, m := range splitSexprs(body) {
		if idx >= len(terms) {
			break
		}
		mm := strings.TrimSpace(m)
		if !strings.HasPrefix(mm, "((") {
			continue
		}
		inner := strings.TrimSuffix(strings.TrimPrefix(mm, "("), ")")
		parts := splitSexprs(strings.TrimSuffix(strings.TrimPrefix(strings.TrimSpace(inner), "("), ")"))
		if len(parts) >= 2 {
			res[terms[idx]] = parts[len(parts)-1]
		}
		idx++
	}
	return res, true
}

// stripCheck removes the final (check-sat) and model requests from an SMT file text.
func stripCheck(s string) string {
	i := strings.LastIndex(s, "(check-sat)")
	if i < 0 {
		return s
	}
	return s[:i]
}

func tryReplay(verif string, e *Engine, j *job) *ReplayResult {
	if j.o.Kind != "ensures" || j.res.Status != "sat" || os.Getenv("VERIF_NO_REPLAY") != "" {
		return nil
	}
	fc := e.contracts[j.fr.Key]
	if fc == nil {
		return nil
	}
	fn, err := e.findFunc(fc)
	if err != nil || fn == nil || len(fn.Params) != len(j.fr.VC.inputs) {
		return nil
	}
	if !strings.HasPrefix(fn.Pkg.Pkg.Path(), repoModule) {
		return nil
	}
	vc := j.fr.VC
	var ps []*rpParam
	for i, p := range fn.Params {
		k, n := rpKind(p.Type())
		if k == "" || k == "error" {
			return &ReplayResult{Note: "replay not attempted: parameter " + p.Name() + " of type " + p.Type().String() + " is outside the replay harness (scalars, strings, byte slices, byte-array pointers)"}
		}
		ps = append(ps, &rpParam{name: p.Name(), typ: p.Type(), term: vc.inputs[i].Term, kind: k, n: n})
	}
	rs := fn.Signature.Results()
	var rkinds []string
	for i := 0; i < rs.Len(); i++ {
		k, _ := rpKind(rs.At(i).Type())
		if k == "" || k == "arrptr" {
			return &ReplayResult{Note: "replay not attempted: result type " + rs.At(i).Type().String() + " is outside the replay harness"}
		}
		rkinds = append(rkinds, k)
	}
	if len(j.o.ResTerms) != rs.Len() {
		return &ReplayResult{Note: "replay not attempted: result terms not recorded"}
	}
	base := stripCheck(e.smtFile(vc, j.o, false))
	bvMode := vc.ar.Mode == ModeBV
	idxLit := func(i int64) string { return vc.idx(i).S }
	// pass 1: scalars and lengths
	var terms []string
	for _, p := range ps {
		switch p.kind {
		case "int", "bool":
			terms = append(terms, p.term)
		case "str":
			terms = append(terms, "(gs.len "+p.term+")")
		case "bytes":
			terms = append(terms, "(s-ref "+p.term+")", "(s-off "+p.term+")", "(s-len "+p.term+")")
		case "arrptr":
			terms = append(terms, p.term)
		}
	}
	vals, ok := runZ3Values(base, terms)
	if !ok {
		return &ReplayResult{Note: "replay not attempted: the model could not be re-derived"}
	}
	fix := ""
	lens := map[string]int64{}
	for _, p := range ps {
		switch p.kind {
		case "int":
			k, _ := intKindOf(p.typ)
			sb := 0
			if k.Signed {
				sb = k.W
			}
			d, ok := smtNum(vals[p.term], sb)
			if !ok {
				return &ReplayResult{Note: "replay not attempted: cannot read the value of " + p.name}
			}
			p.ival = d
			fix += fmt.Sprintf("(assert (= %s %s))\n", p.term, vals[p.term])
		case "bool":
			p.bval = vals[p.term] == "true"
			fix += fmt.Sprintf("(assert (= %s %s))\n", p.term, vals[p.term])
		case "str":
			d, ok := smtNum(vals["(gs.len "+p.term+")"], 64)
			n, _ := strconv.ParseInt(d, 10, 64)
			if !ok || n < 0 || n > 4096 {
				return &ReplayResult{Note: "replay skipped: string length in the model is " + d}
			}
			lens[p.name] = n
			fix += fmt.Sprintf("(assert (= (gs.len %s) %s))\n", p.term, vals["(gs.len "+p.term+")"])
		case "bytes":
			d, ok := smtNum(vals["(s-len "+p.term+")"], 64)
			n, _ := strconv.ParseInt(d, 10, 64)
			if !ok || n < 0 || n > 4096 {
				return &ReplayResult{Note: "replay skipped: slice length in the model is " + d}
			}
			lens[p.name] = n
			p.isNil = vals["(s-ref "+p.term+")"] == "0"
			for _, t := range []string{"(s-ref " + p.term + ")", "(s-off " + p.term + ")", "(s-len " + p.term + ")"} {
				fix += fmt.Sprintf("(assert (= %s %s))\n", t, vals[t])
			}
		case "arrptr":
			p.isNil = vals[p.term] == "0"
			fix += fmt.Sprintf("(assert (= %s %s))\n", p.term, vals[p.term])
		}
	}
	// pass 2: contents
	entryE := j.o.EntryE
	terms = nil
	type bref struct {
		p *rpParam
		i int64
	}
	var order []bref
	for _, p := range ps {
		switch p.kind {
		case "str":
			for i := int64(0); i < lens[p.name]; i++ {
				terms = append(terms, fmt.Sprintf("(gs.at %s %s)", p.term, idxLit(i)))
				order = append(order, bref{p, i})
			}
		case "bytes":
			add := "+"
			if bvMode {
				add = "bvadd"
			}
			for i := int64(0); i < lens[p.name]; i++ {
				terms = append(terms, fmt.Sprintf("(select (select %s (s-ref %s)) (%s (s-off %s) %s))", entryE, p.term, add, p.term, idxLit(i)))
				order = append(order, bref{p, i})
			}
		case "arrptr":
			if !p.isNil {
				for i := int64(0); i < p.n; i++ {
					terms = append(terms, fmt.Sprintf("(select (select %s %s) %s)", entryE, p.term, idxLit(i)))
					order = append(order, bref{p, i})
				}
			}
		}
	}
	if len(terms) > 0 {
		vals2, ok := runZ3Values(base+fix, terms)
		if !ok {
			return &ReplayResult{Note: "replay not attempted: the model could not be re-derived (contents)"}
		}
		for k, br := range order {
			d, ok := smtNum(vals2[terms[k]], 0)
			b, _ := strconv.ParseUint(d, 10, 8)
			if !ok {
				return &ReplayResult{Note: "replay not attempted: cannot read a content byte of " + br.p.name}
			}
			br.p.bytes = append(br.p.bytes, byte(b))
			fix += fmt.Sprintf("(assert (= %s %s))\n", terms[k], vals2[terms[k]])
		}
	}
	// the test
	inputs := map[string]string{}
	src, call := rpTestSource(fn, ps, rkinds, inputs)
	if src == "" {
		return &ReplayResult{Note: "replay not attempted: no harness for this signature"}
	}
	dir, err := os.MkdirTemp("", "govc-replay-")
	if err != nil {
		return nil
	}
	defer os.RemoveAll(dir)
	pkgDir := filepath.Dir(e.fset.Position(fn.Pos()).Filename)
	testFile := filepath.Join(dir, "zz_govc_replay_test.go")
	_ = os.WriteFile(testFile, []byte(src), 0o644)
	ov, _ := json.Marshal(map[string]map[string]string{"Replace": {filepath.Join(pkgDir, "zz_govc_replay_test.go"): testFile}})
	ovFile := filepath.Join(dir, "ov.json")
	_ = os.WriteFile(ovFile, ov, 0o644)
	ctx, cancel := context.WithTimeout(context.Background(), 180*time.Second)
	defer cancel()
	cmd := exec.CommandContext(ctx, "go", "test", "-overlay", ovFile, "-vet=off", "-count=1", "-timeout", "60s", "-run", "^TestGovcReplay$", "-v", ".")
	cmd.Dir = pkgDir
	cmd.Env = append(os.Environ(), "GOFLAGS=-mod=mod", "GOPROXY=off", "GOSUMDB=off", "GOTOOLCHAIN=local")
	var buf bytes.Buffer
	cmd.Stdout, cmd.Stderr = &buf, &buf
	_ = cmd.Run()
	outText := buf.String()
	rr := &ReplayResult{Command: "cd " + pkgDir + " && go test -overlay <ov.json> -vet=off -count=1 -timeout 60s -run ^TestGovcReplay$ -v .   # call: " + call, Inputs: inputs, TestFile: src}
	m := regexp.MustCompile(`GOVC-REPLAY (\{.*\})`).FindStringSubmatch(outText)
	if m == nil {
		rr.Output = truncate(outText, 3000)
		rr.Note = "the replay did not produce results (build failure, panic or timeout): not reproduced"
		return rr
	}
	rr.Observed = m[1]
	var obs struct {
		R []json.RawMessage `json:"r"`
	}
	if err := json.Unmarshal([]byte(m[1]), &obs); err != nil || len(obs.R) != len(rkinds) {
		rr.Note = "cannot parse the replay output"
		return rr
	}
	// assert the observed results into the failed VC
	post := ""
	add := "+"
	if bvMode {
		add = "bvadd"
	}
	for i, k := range rkinds {
		t := j.o.ResTerms[i].T.S
		switch k {
		case "int":
			var s string
			_ = json.Unmarshal(obs.R[i], &s)
			ik, _ := intKindOf(rs.At(i).Type())
			bi, ok := parseBig(s)
			if !ok {
				rr.Note = "cannot parse an integer result"
				return rr
			}
			post += fmt.Sprintf("(assert (= %s %s))\n", t, vc.ar.Lit(bi, ik).S)
		case "bool":
			var b bool
			_ = json.Unmarshal(obs.R[i], &b)
			post += fmt.Sprintf("(assert (= %s %v))\n", t, b)
		case "error":
			var isNil bool
			_ = json.Unmarshal(obs.R[i], &isNil)
			if isNil {
				post += fmt.Sprintf("(assert (= %s (mk-iface 0 0)))\n", t)
			} else {
				post += fmt.Sprintf("(assert (not (= %s (mk-iface 0 0))))\n", t)
			}
		case "bytes":
			var bs struct {
				Nil bool  `json:"nil"`
				B   []int `json:"b"`
			}
			_ = json.Unmarshal(obs.R[i], &bs)
			if bs.Nil {
				post += fmt.Sprintf("(assert (= (s-ref %s) 0))\n", t)
			} else {
				post += fmt.Sprintf("(assert (not (= (s-ref %s) 0)))\n", t)
			}
			post += fmt.Sprintf("(assert (= (s-len %s) %s))\n", t, idxLit(int64(len(bs.B))))
			for q, b := range bs.B {
				post += fmt.Sprintf("(assert (= (select (select %s (s-ref %s)) (%s (s-off %s) %s)) %s))\n", j.o.ExitE, t, add, t, idxLit(int64(q)), vc.ar.Lit64(int64(b), IntKind{8, false}).S)
			}
		case "str":
			var bs []int
			_ = json.Unmarshal(obs.R[i], &bs)
			post += fmt.Sprintf("(assert (= (gs.len %s) %s))\n", t, idxLit(int64(len(bs))))
			for q, b := range bs {
				post += fmt.Sprintf("(assert (= (gs.at %s %s) %s))\n", t, idxLit(int64(q)), vc.ar.Lit64(int64(b), IntKind{8, false}).S)
			}
		}
	}
	_, still := runZ3Values(base+fix+post, nil)
	if still {
		rr.Reproduced = true
		rr.Note = "the real function, run on the counterexample's inputs, returned results that violate the clause"
	} else {
		rr.Note = "the real function's results on these inputs do not violate the clause (or could not be matched to the model): the counterexample is an artefact of an abstraction - not reproduced"
	}
	return rr
}

func goBytesLit(bs []byte, isNil bool) string {
	if isNil && len(bs) == 0 {
		return "[]byte(nil)"
	}
	var sb strings.Builder
	sb.WriteString("[]byte{")
	for i, b := range bs {
		if i > 0 {
			sb.WriteString(", ")
		}
		fmt.Fprintf(&sb, "0x%02x", b)
	}
	sb.WriteString("}")
	return sb.String()
}

// rpTestSource writes the in-package test that calls the real function.
func rpTestSource(fn *ssa.Function, ps []*rpParam, rkinds []string, inputs map[string]string) (string, string) {
	pkg := fn.Pkg.Pkg
	var sb strings.Builder
	fmt.Fprintf(&sb, "package %s\n\nimport (\n\t\"encoding/json\"\n\t\"fmt\"\n\t\"testing\"\n)\n\n", pkg.Name())
	sb.WriteString("// generated by govc: replays a counterexample on the real code\nfunc TestGovcReplay(t *testing.T) {\n")
	qual := func(p *types.Package) string {
		if p == pkg {
			return ""
		}
		return p.Name()
	}
	var args []string
	recv := ""
	isMethod := fn.Signature.Recv() != nil
	for i, p := range ps {
		v := fmt.Sprintf("a%d", i)
		ts := types.TypeString(p.typ, qual)
		if strings.Contains(ts, ".") && !isMethodRecv(isMethod, i) {
			return "", "" // a type of another package: imports are not generated
		}
		switch p.kind {
		case "int":
			fmt.Fprintf(&sb, "\tvar %s %s = %s\n", v, ts, p.ival)
			inputs[p.name] = p.ival
		case "bool":
			fmt.Fprintf(&sb, "\tvar %s %s = %v\n", v, ts, p.bval)
			inputs[p.name] = fmt.Sprint(p.bval)
		case "str":
			fmt.Fprintf(&sb, "\tvar %s %s = %s(%s)\n", v, ts, ts, goBytesLit(p.bytes, false))
			inputs[p.name] = fmt.Sprintf("%q", string(p.bytes))
		case "bytes":
			fmt.Fprintf(&sb, "\tvar %s %s = %s\n", v, ts, goBytesLit(p.bytes, p.isNil))
			inputs[p.name] = fmt.Sprintf("%x", p.bytes)
		case "arrptr":
			et := types.TypeString(p.typ.Underlying().(*types.Pointer).Elem(), qual)
			if p.isNil {
				fmt.Fprintf(&sb, "\tvar %s %s\n", v, ts)
				inputs[p.name] = "nil"
			} else {
				fmt.Fprintf(&sb, "\tvar %sv %s\n\tcopy(%sv[:], %s)\n\t%s := &%sv\n", v, et, v, goBytesLit(p.bytes, false), v, v)
				inputs[p.name] = fmt.Sprintf("%x", p.bytes)
			}
		}
		if isMethod && i == 0 {
			recv = v
		} else {
			args = append(args, v)
		}
	}
	// variadic last parameter of slice type
	callArgs := strings.Join(args, ", ")
	if fn.Signature.Variadic() && len(args) > 0 {
		callArgs += "..."
	}
	call := fn.Name() + "(" + callArgs + ")"
	if isMethod {
		call = recv + "." + call
	}
	var rnames []string
	for i := range rkinds {
		rnames = append(rnames, fmt.Sprintf("r%d", i))
	}
	if len(rnames) > 0 {
		fmt.Fprintf(&sb, "\t%s := %s\n", strings.Join(rnames, ", "), call)
	} else {
		fmt.Fprintf(&sb, "\t%s\n", call)
	}
	sb.WriteString("\tvar out []interface{}\n")
	for i, k := range rkinds {
		switch k {
		case "int":
			fmt.Fprintf(&sb, "\tout = append(out, fmt.Sprint(r%d))\n", i)
		case "bool":
			fmt.Fprintf(&sb, "\tout = append(out, bool(r%d))\n", i)
		case "error":
			fmt.Fprintf(&sb, "\tout = append(out, r%d == nil)\n", i)
		case "bytes":
			fmt.Fprintf(&sb, "\t{\n\t\tb := []int{}\n\t\tfor _, x := range []byte(r%d) {\n\t\t\tb = append(b, int(x))\n\t\t}\n\t\tout = append(out, map[string]interface{}{\"nil\": r%d == nil, \"b\": b})\n\t}\n", i, i)
		case "str":
			fmt.Fprintf(&sb, "\t{\n\t\tb := []int{}\n\t\tfor _, x := range []byte(string(r%d)) {\n\t\t\tb = append(b, int(x))\n\t\t}\n\t\tout = append(out, b)\n\t}\n", i)
		}
	}
	sb.WriteString("\tjs, _ := json.Marshal(map[string]interface{}{\"r\": out})\n\tfmt.Println(\"GOVC-REPLAY \" + string(js))\n}\n")
	return sb.String(), call
}

func isMethodRecv(isMethod bool, i int) bool { return isMethod && i == 0 }

func parseBig(s string) (*big.Int, bool) {
	return new(big.Int).SetString(strings.TrimSpace(s), 10)
}
