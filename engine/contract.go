package main

// Contract files: comment-only Go files (build tag verif) with //@ lines.
//
//   //@ property C24 C22          tags the following items (until the next property line)
//   //@ func (r *T) Name(a, b) (x, y)
//   //@   arith bv|int
//   //@   requires E / ensures E / modifies L, L / pure / trusted / nosafety / overflow assumed|check|wrap
//   //@   loop K: unroll N | invariant E | decreases E | modifies L
//   //@   use LEMMA
//   //@   inline-depth N
//   //@ lemma NAME [arith bv|int] : E        (closed formula; proved as an obligation)
//   //@ axiom NAME [arith bv|int] : E        (assumed; reported)
//   //@ spec NAME(a, b) = E                  (macro, expanded at use; may read the heap)
//   //@ smt [bv|int|all] <raw SMT-LIB line>  (definitions for the preamble; define-fun / define-fun-rec / declare-fun)
//
// A line that does not start with a keyword continues the previous clause.

import (
	"fmt"
	"os"
	"regexp"
	"strconv"
	"strings"
)

type LoopSpec struct {
	Unroll     int // 0 = not unrolled
	Invariants []*Clause
	Steps      []*Clause // asserted at every back edge only (may name locals of the body)
	Decreases  *Clause
	Modifies   []*Clause
}

type Clause struct {
	Text string
	Expr Expr
	Line int
	File string
	Tag  string // optional label for naming the obligation
}

type FuncContract struct {
	Props     []string
	Pkg       string // import path of the package the file sits in
	Recv      string // receiver type name without *, "" for plain functions
	RecvName  string
	Name      string
	Params    []string // names as used in the contract (positional)
	Results   []string
	Mode      Mode
	ModeSet   bool
	Requires  []*Clause
	Ensures   []*Clause
	Modifies  []*Clause
	ModAll    bool
	Pure      bool
	Trusted   bool
	NoSafety  bool
	NoFrame   bool
	MayPanic  bool
	Overflow  string // "check" (default in int mode), "assumed", ""
	Loops     map[int]*LoopSpec
	Uses      []string
	Asserts   []*Clause
	CallPre   map[string][]*Clause // callee short name -> extra obligations at each call site
	Inline    []string             // callee names forced to inline even if they have a contract
	NoInline  []string
	File      string
	Line      int
	InlineMax int
	IfaceOf   string // non-empty: this is a contract on an interface method (Recv is the interface name)
	Ghost     []*Clause
	Opts      map[string]string
}

func (fc *FuncContract) Key() string {
	if fc.Recv != "" {
		return fc.Pkg + ".(" + fc.Recv + ")." + fc.Name
	}
	return fc.Pkg + "." + fc.Name
}

type Lemma struct {
	Props   []string
	Name    string
	Mode    Mode
	Body    *Clause
	IsAxiom bool
	Pkg     string
	Uses    []string
	Induct  string // non-empty: body is P(k) with free variable k; proved by induction on k >= 0, used as forall k >= 0
	Defs    bool   // include lemma-scoped SMT definitions when used in a function VC? (never) / when proving (always)
}

type SpecFunc struct {
	Name   string
	Params []string
	Body   *Clause
	Pkg    string
}

type SmtDef struct {
	Mode  string // bv|int|all
	Scope string // "" (everywhere), "lemma" (only when proving lemmas), "func" (only in function VCs)
	Text  string
	Pkg   string
}

type ContractFile struct {
	Path   string
	Pkg    string
	Funcs  []*FuncContract
	Lemmas []*Lemma
	Specs  []*SpecFunc
	Smt    []*SmtDef
}

var funcHdrRe = regexp.MustCompile(`^func\s*(?:\(\s*(\w+)\s+\*?\s*(\w+)\s*\))?\s*(\w+)\s*\(([^)]*)\)\s*(?:\(([^)]*)\))?\s*$`)

func parseNames(s string) []string {
	var out []string
	for _, p := range strings.Split(s, ",") {
		p = strings.TrimSpace(p)
		if p == "" {
			continue
		}
		f := strings.Fields(p)
		out = append(out, f[0]) // "name type" or "name"
	}
	return out
}

var clauseKeywords = map[string]bool{
	"func": true, "requires": true, "ensures": true, "modifies": true, "loop": true, "arith": true,
	"pure": true, "trusted": true, "nosafety": true, "noframe": true, "use": true, "lemma": true, "axiom": true,
	"spec": true, "smt": true, "property": true, "overflow": true, "maypanic": true, "assert": true,
	"callpre": true, "inline": true, "noinline": true, "inline-depth": true, "iface": true, "opt": true, "end": true,
	"package": true,
}

// ParseContractFile reads one contract file.
func ParseContractFile(path, pkg string) (*ContractFile, error) {
	data, err := os.ReadFile(path)
	if err != nil {
		return nil, err
	}
	cf := &ContractFile{Path: path, Pkg: pkg}
	type rawClause struct {
		kw   string
		text string
		line int
	}
	var clauses []rawClause
	for i, ln := range strings.Split(string(data), "\n") {
		t := strings.TrimSpace(ln)
		if !strings.HasPrefix(t, "//@") {
			continue
		}
		t = strings.TrimSpace(t[3:])
		if t == "" || strings.HasPrefix(t, "#") {
			continue
		}
		// strip trailing comment  " // ..."
		if j := strings.Index(t, " //"); j >= 0 && !strings.HasPrefix(t, "smt") {
			t = strings.TrimSpace(t[:j])
		}
		kw := t
		if j := strings.IndexAny(t, " \t:("); j >= 0 {
			kw = t[:j]
		}
		if clauseKeywords[kw] {
			clauses = append(clauses, rawClause{kw, strings.TrimSpace(t[len(kw):]), i + 1})
		} else {
			if len(clauses) == 0 {
				return nil, fmt.Errorf("%s:%d: continuation without clause", path, i+1)
			}
			clauses[len(clauses)-1].text += " " + t
		}
	}
	var props []string
	var cur *FuncContract
	mk := func(text string, line int) (*Clause, error) {
		tag := ""
		if m := regexp.MustCompile(`^\[([\w:]+)\]\s*`).FindStringSubmatch(text); m != nil {
			tag = m[1]
			text = text[len(m[0]):]
		}
		e, err := ParseExpr(text)
		if err != nil {
			return nil, fmt.Errorf("%s:%d: %v (in %q)", path, line, err, text)
		}
		return &Clause{Text: text, Expr: e, Line: line, File: path, Tag: tag}, nil
	}
	for _, c := range clauses {
		switch c.kw {
		case "package":
			// header of a specs/*.gospec file (the package the trusted contracts are about)
			cur = nil
		case "property":
			props = strings.Fields(c.text)
			cur = nil
		case "end":
			cur = nil
		case "func":
			m := funcHdrRe.FindStringSubmatch("func " + c.text)
			if m == nil {
				return nil, fmt.Errorf("%s:%d: bad func header %q", path, c.line, c.text)
			}
			cur = &FuncContract{Props: props, Pkg: pkg, RecvName: m[1], Recv: m[2], Name: m[3],
				Params: parseNames(m[4]), Results: parseNames(m[5]), Loops: map[int]*LoopSpec{},
				CallPre: map[string][]*Clause{}, File: path, Line: c.line, InlineMax: -1, Opts: map[string]string{}}
			cf.Funcs = append(cf.Funcs, cur)
		case "lemma", "axiom":
			// NAME [arith X] [use L1,L2] : E
			j := strings.Index(c.text, ":")
			if j < 0 {
				return nil, fmt.Errorf("%s:%d: lemma needs ':'", path, c.line)
			}
			hdr := strings.Fields(c.text[:j])
			if len(hdr) == 0 {
				return nil, fmt.Errorf("%s:%d: lemma needs a name", path, c.line)
			}
			l := &Lemma{Props: props, Name: hdr[0], Mode: ModeInt, IsAxiom: c.kw == "axiom", Pkg: pkg}
			for k := 1; k < len(hdr); k++ {
				switch hdr[k] {
				case "bv":
					l.Mode = ModeBV
				case "int":
					l.Mode = ModeInt
				case "arith":
				case "use":
					if k+1 < len(hdr) {
						l.Uses = append(l.Uses, strings.Split(hdr[k+1], ",")...)
						k++
					}
				case "induction":
					if k+1 < len(hdr) {
						l.Induct = hdr[k+1]
						k++
					}
				}
			}
			cl, err := mk(strings.TrimSpace(c.text[j+1:]), c.line)
			if err != nil {
				return nil, err
			}
			l.Body = cl
			cf.Lemmas = append(cf.Lemmas, l)
			cur = nil
		case "spec":
			m := regexp.MustCompile(`^(\w+)\s*\(([^)]*)\)\s*=\s*(.*)$`).FindStringSubmatch(c.text)
			if m == nil {
				return nil, fmt.Errorf("%s:%d: bad spec %q", path, c.line, c.text)
			}
			cl, err := mk(m[3], c.line)
			if err != nil {
				return nil, err
			}
			cf.Specs = append(cf.Specs, &SpecFunc{Name: m[1], Params: parseNames(m[2]), Body: cl, Pkg: pkg})
			cur = nil
		case "smt":
			mode := "all"
			text := c.text
			for _, p := range []string{"bv", "int", "all"} {
				if strings.HasPrefix(text, p+" ") {
					mode = p
					text = strings.TrimSpace(text[len(p):])
				}
			}
			scope := ""
			for _, p := range []string{"lemma", "func"} {
				if strings.HasPrefix(text, p+" ") {
					scope = p
					text = strings.TrimSpace(text[len(p):])
				}
			}
			cf.Smt = append(cf.Smt, &SmtDef{Mode: mode, Scope: scope, Text: text, Pkg: pkg})
		default:
			if cur == nil {
				return nil, fmt.Errorf("%s:%d: clause %q outside func", path, c.line, c.kw)
			}
			switch c.kw {
			case "arith":
				cur.ModeSet = true
				switch strings.TrimSpace(c.text) {
				case "bv":
					cur.Mode = ModeBV
				case "int":
					cur.Mode = ModeInt
				default:
					return nil, fmt.Errorf("%s:%d: bad arith %q", path, c.line, c.text)
				}
			case "requires", "ensures", "assert":
				cl, err := mk(c.text, c.line)
				if err != nil {
					return nil, err
				}
				switch c.kw {
				case "requires":
					cur.Requires = append(cur.Requires, cl)
				case "ensures":
					cur.Ensures = append(cur.Ensures, cl)
				case "assert":
					cur.Asserts = append(cur.Asserts, cl)
				}
			case "modifies":
				if strings.TrimSpace(c.text) == "*" {
					cur.ModAll = true
					break
				}
				for _, part := range splitTop(c.text, ',') {
					if m := regexp.MustCompile(`^ghost\((\w+)\)$`).FindStringSubmatch(strings.TrimSpace(part)); m != nil {
						cur.Opts["modghost:"+m[1]] = "1"
						continue
					}
					cl, err := mk(part, c.line)
					if err != nil {
						return nil, err
					}
					cur.Modifies = append(cur.Modifies, cl)
				}
			case "pure":
				cur.Pure = true
			case "trusted":
				cur.Trusted = true
			case "nosafety":
				cur.NoSafety = true
			case "noframe":
				cur.NoFrame = true
			case "maypanic":
				cur.MayPanic = true
			case "overflow":
				cur.Overflow = strings.TrimSpace(c.text)
			case "use":
				cur.Uses = append(cur.Uses, strings.Fields(strings.ReplaceAll(c.text, ",", " "))...)
			case "inline":
				cur.Inline = append(cur.Inline, strings.Fields(strings.ReplaceAll(c.text, ",", " "))...)
			case "noinline":
				cur.NoInline = append(cur.NoInline, strings.Fields(strings.ReplaceAll(c.text, ",", " "))...)
			case "inline-depth":
				n, err := strconv.Atoi(strings.TrimSpace(c.text))
				if err != nil {
					return nil, fmt.Errorf("%s:%d: %v", path, c.line, err)
				}
				cur.InlineMax = n
			case "iface":
				cur.IfaceOf = strings.TrimSpace(c.text)
				if cur.IfaceOf == "" {
					cur.IfaceOf = cur.Recv
				}
			case "opt":
				f := strings.Fields(c.text)
				if len(f) >= 1 {
					v := "1"
					if len(f) >= 2 {
						v = strings.Join(f[1:], " ")
					}
					cur.Opts[f[0]] = v
				}
			case "callpre":
				// callpre NAME: E
				j := strings.Index(c.text, ":")
				if j < 0 {
					return nil, fmt.Errorf("%s:%d: callpre needs ':'", path, c.line)
				}
				cl, err := mk(strings.TrimSpace(c.text[j+1:]), c.line)
				if err != nil {
					return nil, err
				}
				n := strings.TrimSpace(c.text[:j])
				cur.CallPre[n] = append(cur.CallPre[n], cl)
			case "loop":
				// loop K: unroll N | invariant E | decreases E
				j := strings.Index(c.text, ":")
				if j < 0 {
					return nil, fmt.Errorf("%s:%d: loop needs ':'", path, c.line)
				}
				k, err := strconv.Atoi(strings.TrimSpace(c.text[:j]))
				if err != nil {
					return nil, fmt.Errorf("%s:%d: loop ordinal: %v", path, c.line, err)
				}
				ls := cur.Loops[k]
				if ls == nil {
					ls = &LoopSpec{}
					cur.Loops[k] = ls
				}
				rest := strings.TrimSpace(c.text[j+1:])
				switch {
				case strings.HasPrefix(rest, "unroll"):
					n, err := strconv.Atoi(strings.TrimSpace(rest[6:]))
					if err != nil {
						return nil, fmt.Errorf("%s:%d: unroll count: %v", path, c.line, err)
					}
					ls.Unroll = n
				case strings.HasPrefix(rest, "invariant"):
					cl, err := mk(strings.TrimSpace(rest[9:]), c.line)
					if err != nil {
						return nil, err
					}
					ls.Invariants = append(ls.Invariants, cl)
				case strings.HasPrefix(rest, "step"):
					cl, err := mk(strings.TrimSpace(rest[4:]), c.line)
					if err != nil {
						return nil, err
					}
					ls.Steps = append(ls.Steps, cl)
				case strings.HasPrefix(rest, "decreases"):
					cl, err := mk(strings.TrimSpace(rest[9:]), c.line)
					if err != nil {
						return nil, err
					}
					ls.Decreases = cl
				case strings.HasPrefix(rest, "modifies"):
					for _, part := range splitTop(strings.TrimSpace(rest[8:]), ',') {
						cl, err := mk(part, c.line)
						if err != nil {
							return nil, err
						}
						ls.Modifies = append(ls.Modifies, cl)
					}
				default:
					return nil, fmt.Errorf("%s:%d: bad loop clause %q", path, c.line, rest)
				}
			}
		}
	}
	return cf, nil
}

func splitTop(s string, sep byte) []string {
	var out []string
	depth := 0
	start := 0
	for i := 0; i < len(s); i++ {
		switch s[i] {
		case '(', '[':
			depth++
		case ')', ']':
			depth--
		default:
			if s[i] == sep && depth == 0 {
				out = append(out, strings.TrimSpace(s[start:i]))
				start = i + 1
			}
		}
	}
	if t := strings.TrimSpace(s[start:]); t != "" {
		out = append(out, t)
	}
	return out
}

// ---------------------------------------------------------------------------
// Expression AST and parser

type Expr interface{}

type (
	EIdent struct{ Name string }
	EInt   struct{ Val string } // decimal or 0x..
	EBool  struct{ Val bool }
	ENil   struct{}
	EStr   struct{ Val string }
	EUnary struct {
		Op string
		X  Expr
	}
	EBinary struct {
		Op   string
		X, Y Expr
	}
	ECond struct{ C, A, B Expr }
	ECall struct {
		Fun  string
		Args []Expr
	}
	ESel struct {
		X    Expr
		Name string
	}
	EIndex struct{ X, I Expr }
	ESlice struct{ X, Lo, Hi Expr }
	EQuant struct {
		Forall bool
		Vars   []QVar
		Body   Expr
		Trig   [][]Expr
	}
	EStar struct{ X Expr } // x[*] in modifies
)

type QVar struct{ Name, Type string }

type tok struct {
	kind string // id int str op eof
	s    string
}

type lexer struct {
	toks []tok
	pos  int
}

func lex(s string) ([]tok, error) {
	var out []tok
	i := 0
	ops := []string{"<==>", "==>", "<<", ">>", "&&", "||", "==", "!=", "<=", ">=", "&^", "::", ":", "?", "(", ")", "[", "]", "{", "}", ",", ".", "+", "-", "*", "/", "%", "&", "|", "^", "<", ">", "!"}
	for i < len(s) {
		c := s[i]
		switch {
		case c == ' ' || c == '\t':
			i++
		case c >= '0' && c <= '9':
			j := i
			if c == '0' && i+1 < len(s) && (s[i+1] == 'x' || s[i+1] == 'X') {
				j = i + 2
				for j < len(s) && strings.ContainsRune("0123456789abcdefABCDEF_", rune(s[j])) {
					j++
				}
			} else {
				for j < len(s) && (s[j] >= '0' && s[j] <= '9' || s[j] == '_') {
					j++
				}
			}
			out = append(out, tok{"int", strings.ReplaceAll(s[i:j], "_", "")})
			i = j
		case c == '_' || c == '$' || (c >= 'a' && c <= 'z') || (c >= 'A' && c <= 'Z'):
			j := i
			for j < len(s) && (s[j] == '_' || s[j] == '$' || (s[j] >= 'a' && s[j] <= 'z') || (s[j] >= 'A' && s[j] <= 'Z') || (s[j] >= '0' && s[j] <= '9')) {
				j++
			}
			out = append(out, tok{"id", s[i:j]})
			i = j
		case c == '"':
			j := i + 1
			for j < len(s) && s[j] != '"' {
				if s[j] == '\\' {
					j++
				}
				j++
			}
			if j >= len(s) {
				return nil, fmt.Errorf("unterminated string")
			}
			v, err := strconv.Unquote(s[i : j+1])
			if err != nil {
				return nil, err
			}
			out = append(out, tok{"str", v})
			i = j + 1
		case c == '\'':
			j := i + 1
			for j < len(s) && s[j] != '\'' {
				if s[j] == '\\' {
					j++
				}
				j++
			}
			v, _, _, err := strconv.UnquoteChar(s[i+1:j], '\'')
			if err != nil {
				return nil, err
			}
			out = append(out, tok{"int", strconv.Itoa(int(v))})
			i = j + 1
		default:
			matched := false
			for _, op := range ops {
				if strings.HasPrefix(s[i:], op) {
					out = append(out, tok{"op", op})
					i += len(op)
					matched = true
					break
				}
			}
			if !matched {
				return nil, fmt.Errorf("unexpected character %q", c)
			}
		}
	}
	out = append(out, tok{"eof", ""})
	return out, nil
}

func ParseExpr(s string) (Expr, error) {
	toks, err := lex(s)
	if err != nil {
		return nil, err
	}
	p := &lexer{toks: toks}
	e, err := p.parseExpr(0)
	if err != nil {
		return nil, err
	}
	if p.peek().kind != "eof" {
		return nil, fmt.Errorf("unexpected %q", p.peek().s)
	}
	return e, nil
}

func (p *lexer) peek() tok { return p.toks[p.pos] }
func (p *lexer) next() tok { t := p.toks[p.pos]; p.pos++; return t }
func (p *lexer) accept(s string) bool {
	if p.peek().kind == "op" && p.peek().s == s {
		p.pos++
		return true
	}
	return false
}
func (p *lexer) expect(s string) error {
	if !p.accept(s) {
		return fmt.Errorf("expected %q, got %q", s, p.peek().s)
	}
	return nil
}

// precedence: 0 <==>, 1 ==>, 2 ?:, 3 ||, 4 &&, 5 cmp, 6 + - | ^, 7 * / % << >> & &^
var binPrec = map[string]int{
	"<==>": 0, "==>": 1, "||": 3, "&&": 4,
	"==": 5, "!=": 5, "<": 5, "<=": 5, ">": 5, ">=": 5,
	"+": 6, "-": 6, "|": 6, "^": 6,
	"*": 7, "/": 7, "%": 7, "<<": 7, ">>": 7, "&": 7, "&^": 7,
}

func (p *lexer) parseExpr(min int) (Expr, error) {
	lhs, err := p.parseUnary()
	if err != nil {
		return nil, err
	}
	for {
		t := p.peek()
		if t.kind != "op" {
			break
		}
		if t.s == "?" && min <= 2 {
			p.next()
			a, err := p.parseExpr(3)
			if err != nil {
				return nil, err
			}
			if err := p.expect(":"); err != nil {
				return nil, err
			}
			b, err := p.parseExpr(2)
			if err != nil {
				return nil, err
			}
			lhs = &ECond{lhs, a, b}
			continue
		}
		prec, ok := binPrec[t.s]
		if !ok || prec < min {
			break
		}
		p.next()
		nextMin := prec + 1
		if t.s == "==>" {
			nextMin = prec // right assoc
		}
		rhs, err := p.parseExpr(nextMin)
		if err != nil {
			return nil, err
		}
		lhs = &EBinary{t.s, lhs, rhs}
	}
	return lhs, nil
}

func (p *lexer) parseUnary() (Expr, error) {
	t := p.peek()
	if t.kind == "op" && (t.s == "!" || t.s == "-" || t.s == "^") {
		p.next()
		x, err := p.parseUnary()
		if err != nil {
			return nil, err
		}
		return &EUnary{t.s, x}, nil
	}
	if t.kind == "id" && (t.s == "forall" || t.s == "exists") {
		p.next()
		q := &EQuant{Forall: t.s == "forall"}
		for {
			n := p.next()
			if n.kind != "id" {
				return nil, fmt.Errorf("quantifier variable expected, got %q", n.s)
			}
			ty := "int"
			if p.peek().kind == "id" {
				ty = p.next().s
			}
			q.Vars = append(q.Vars, QVar{n.s, ty})
			if !p.accept(",") {
				break
			}
		}
		if err := p.expect("::"); err != nil {
			return nil, err
		}
		// optional triggers { e, e } { e }
		for p.peek().kind == "op" && p.peek().s == "{" {
			p.next()
			var tr []Expr
			for {
				e, err := p.parseExpr(3)
				if err != nil {
					return nil, err
				}
				tr = append(tr, e)
				if !p.accept(",") {
					break
				}
			}
			if err := p.expect("}"); err != nil {
				return nil, err
			}
			q.Trig = append(q.Trig, tr)
		}
		body, err := p.parseExpr(0)
		if err != nil {
			return nil, err
		}
		q.Body = body
		return q, nil
	}
	return p.parsePostfix()
}

func (p *lexer) parsePostfix() (Expr, error) {
	var x Expr
	t := p.next()
	switch t.kind {
	case "int":
		x = &EInt{t.s}
	case "str":
		x = &EStr{t.s}
	case "id":
		switch t.s {
		case "true":
			x = &EBool{true}
		case "false":
			x = &EBool{false}
		case "nil":
			x = &ENil{}
		default:
			x = &EIdent{t.s}
		}
	case "op":
		if t.s == "(" {
			e, err := p.parseExpr(0)
			if err != nil {
				return nil, err
			}
			if err := p.expect(")"); err != nil {
				return nil, err
			}
			x = e
		} else {
			return nil, fmt.Errorf("unexpected %q", t.s)
		}
	default:
		return nil, fmt.Errorf("unexpected end of expression")
	}
	for {
		switch {
		case p.accept("."):
			n := p.next()
			if n.kind != "id" {
				return nil, fmt.Errorf("field name expected")
			}
			// qualified call pkg.Func(...) handled as ESel then call
			x = &ESel{x, n.s}
		case p.accept("("):
			var args []Expr
			if !p.accept(")") {
				for {
					a, err := p.parseExpr(0)
					if err != nil {
						return nil, err
					}
					args = append(args, a)
					if p.accept(")") {
						break
					}
					if err := p.expect(","); err != nil {
						return nil, err
					}
				}
			}
			name := ""
			switch f := x.(type) {
			case *EIdent:
				name = f.Name
			case *ESel:
				if id, ok := f.X.(*EIdent); ok {
					name = id.Name + "." + f.Name
				}
			}
			if name == "" {
				return nil, fmt.Errorf("call of non-identifier")
			}
			x = &ECall{name, args}
		case p.accept("["):
			if p.accept("*") {
				if err := p.expect("]"); err != nil {
					return nil, err
				}
				x = &EStar{x}
				continue
			}
			var lo, hi Expr
			var err error
			if !(p.peek().kind == "op" && p.peek().s == ":") {
				lo, err = p.parseExpr(0)
				if err != nil {
					return nil, err
				}
			}
			if p.accept(":") {
				if !(p.peek().kind == "op" && p.peek().s == "]") {
					hi, err = p.parseExpr(0)
					if err != nil {
						return nil, err
					}
				}
				if err := p.expect("]"); err != nil {
					return nil, err
				}
				x = &ESlice{x, lo, hi}
			} else {
				if err := p.expect("]"); err != nil {
					return nil, err
				}
				x = &EIndex{x, lo}
			}
		default:
			return x, nil
		}
	}
}
