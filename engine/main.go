package main

import (
	"crypto/sha256"
	"encoding/hex"
	"encoding/json"
	"flag"
	"fmt"
	"os"
	"path/filepath"
	"sort"
	"strconv"
	"strings"
	"time"
)

type KnownFinding struct {
	Property   string `json:"property"`
	Obligation string `json:"obligation"`
	Text       string `json:"text"`
	Status     string `json:"status"` // "open" or "fixed"
	Commit     string `json:"commit,omitempty"`
}

type Baseline map[string]map[string]string // property -> obligation full name -> "unsat"/"sat"(cover)

func loadBaseline(verif string) Baseline {
	b := Baseline{}
	data, err := os.ReadFile(filepath.Join(verif, "baseline", "obligations.json"))
	if err == nil {
		_ = json.Unmarshal(data, &b)
	}
	return b
}

func saveBaseline(verif string, b Baseline) error {
	_ = os.MkdirAll(filepath.Join(verif, "baseline"), 0o755)
	data, _ := json.MarshalIndent(b, "", " ")
	return os.WriteFile(filepath.Join(verif, "baseline", "obligations.json"), append(data, '\n'), 0o644)
}

func loadKnown(verif string) []KnownFinding {
	var k struct {
		Findings []KnownFinding `json:"findings"`
	}
	data, err := os.ReadFile(filepath.Join(verif, "known_findings.json"))
	if err == nil {
		_ = json.Unmarshal(data, &k)
	}
	return k.Findings
}

func main() {
	if len(os.Args) < 2 {
		fmt.Fprintln(os.Stderr, "usage: govc check|run|baseline|dump ...")
		os.Exit(2)
	}
	repo := envOr("VERIF_REPO", "/repo")
	verif := envOr("VERIF_DIR", "/verif")
	switch os.Args[1] {
	case "dump":
		e := NewEngine(repo, verif)
		if err := e.Load([]string{os.Args[2]}); err != nil {
			fatal(err)
		}
		for _, p := range e.pkgs {
			sp := e.prog.Package(p.Types)
			if sp == nil {
				continue
			}
			for _, name := range os.Args[3:] {
				for _, m := range sp.Members {
					_ = m
				}
				if f := sp.Func(name); f != nil {
					f.WriteTo(os.Stdout)
				}
			}
		}
		// methods: Type.Method
		for _, name := range os.Args[3:] {
			if i := strings.Index(name, "."); i > 0 {
				fc := &FuncContract{Pkg: "", Recv: name[:i], Name: name[i+1:]}
				for path := range e.pkgs {
					if strings.HasSuffix(path, strings.TrimPrefix(os.Args[2], "./")) {
						fc.Pkg = path
					}
				}
				if fn, err := e.findFunc(fc); err == nil {
					fn.WriteTo(os.Stdout)
					lf, _ := buildLoopForest(fn)
					for _, li := range lf.loops {
						fmt.Printf("loop %d: header block %d, line %d\n", li.ordinal, li.header.Index, e.fset.Position(minPosOf(li)).Line)
					}
				} else {
					fmt.Println(err)
				}
			}
		}
	case "check", "run", "baseline":
		fs := flag.NewFlagSet(os.Args[1], flag.ExitOnError)
		verbose := fs.Bool("v", false, "verbose")
		filter := fs.String("f", "", "only functions/lemmas whose key contains this")
		timeout := fs.Int("t", 0, "solver timeout (s)")
		_ = fs.Parse(os.Args[2:])
		if fs.NArg() < 1 {
			fatal(fmt.Errorf("property id expected"))
		}
		id := fs.Arg(0)
		tier := "quick"
		if fs.NArg() > 1 {
			tier = fs.Arg(1)
		}
		os.Exit(runProperty(repo, verif, os.Args[1], id, tier, *verbose, *filter, *timeout))
	default:
		fmt.Fprintln(os.Stderr, "unknown command", os.Args[1])
		os.Exit(2)
	}
}

func minPosOf(li *loopInfo) (mp tokenPos) {
	for b := range li.blocks {
		for _, in := range b.Instrs {
			if p := in.Pos(); p.IsValid() && (mp == 0 || p < mp) {
				mp = p
			}
		}
	}
	return mp
}

func envOr(k, d string) string {
	if v := os.Getenv(k); v != "" {
		return v
	}
	return d
}

func fatal(err error) {
	fmt.Fprintln(os.Stderr, "govc:", err)
	os.Exit(2)
}

type oblReport struct {
	Name    string  `json:"name"`
	Kind    string  `json:"kind"`
	Status  string  `json:"status"`
	Solver  string  `json:"solver,omitempty"`
	Seconds float64 `json:"seconds"`
	Text    string  `json:"text,omitempty"`
	Where   string  `json:"where,omitempty"`
}

func runProperty(repo, verif, cmd, id, tier string, verbose bool, filter string, timeoutFlag int) int {
	t0 := time.Now()
	props, err := LoadProps(verif)
	if err != nil {
		fatal(err)
	}
	pc := props[id]
	if pc == nil {
		fatal(fmt.Errorf("property %s not configured in props.json", id))
	}
	e := NewEngine(repo, verif)
	e.verbose = verbose
	if err := e.Load(pc.Packages); err != nil {
		fatal(fmt.Errorf("loading packages: %w", err))
	}
	if err := e.LoadContracts(); err != nil {
		fatal(fmt.Errorf("loading contracts: %w", err))
	}
	tLoad := time.Since(t0).Seconds()
	var results []*FuncResult
	var keys []string
	for k, fc := range e.contracts {
		if hasProp(fc.Props, id) && (!fc.Trusted || fc.Opts["verify-body"] != "") && fc.Opts["looponly"] == "" {
			keys = append(keys, k)
		}
	}
	sort.Strings(keys)
	for _, k := range keys {
		if filter != "" && !strings.Contains(k, filter) {
			continue
		}
		fr := func() (fr *FuncResult) {
			defer func() {
				if r := recover(); r != nil {
					fr = &FuncResult{Key: k, Err: fmt.Errorf("internal panic: %v", r)}
					if verbose {
						panic(r)
					}
				}
			}()
			return e.VerifyFunc(e.contracts[k])
		}()
		results = append(results, fr)
	}
	for _, l := range e.lemmaList {
		if hasProp(l.Props, id) && !l.IsAxiom {
			if filter != "" && !strings.Contains("lemma/"+l.Name, filter) {
				continue
			}
			results = append(results, e.VerifyLemma(l))
		}
	}
	tGen := time.Since(t0).Seconds() - tLoad
	timeoutS := 60
	all := false
	if tier == "thorough" {
		timeoutS = 180
		all = true
	}
	if timeoutFlag > 0 {
		timeoutS = timeoutFlag
	}
	outDir := filepath.Join(envOr("VERIF_OUT", filepath.Join(verif, "out")), id)
	_ = os.RemoveAll(outDir)
	jobs := e.solveAll(outDir, results, timeoutS, all, 16)
	tSolve := time.Since(t0).Seconds() - tLoad - tGen

	base := loadBaseline(verif)
	known := loadKnown(verif)
	pb := base[id]
	newBase := map[string]string{}
	var reports []oblReport
	var violations []string
	var knownHits []string
	nClaimed, nDischarged := 0, 0
	var unclaimed []oblReport
	var boundedUndecided []string
	var solverErrs []string
	solverTime := map[string]float64{}
	seen := map[string]bool{}
	machineryErr := 0
	// functions with an unannotated loop whose unwinding assertion did not discharge: their
	// obligations were explored only up to the unrolling bound
	boundedFn := map[string]bool{}
	for _, j := range jobs {
		if j.o.Kind == "auto-unwind" && j.res.Status != "unsat" {
			boundedFn[j.fr.Key] = true
		}
	}
	for _, j := range jobs {
		full := j.fr.Key + "/" + j.o.Name
		seen[full] = true
		// cover (vacuity) queries fail only when the solver proves the path/precondition contradictory;
		// with quantified background axioms a solver often answers unknown instead of sat.
		ok := (j.res.Status == "unsat" && !j.o.ExpectSat) || (j.o.ExpectSat && j.res.Status != "unsat" && j.res.Status != "error" && j.res.Status != "disagree")
		rep := oblReport{Name: full, Kind: j.o.Kind, Status: j.res.Status, Solver: j.res.Solver, Seconds: j.res.Seconds, Text: j.o.Text,
			Where: fmt.Sprintf("%s:%d", shortFile(j.o.Pos.Filename), j.o.Pos.Line)}
		solverTime[j.res.Solver] += j.res.Seconds
		if cmd == "run" || verbose {
			mark := "ok  "
			if !ok {
				mark = "FAIL"
			}
			fmt.Printf("%s %-8s %-7s %6.2fs %s   -- %s\n", mark, j.res.Status, j.res.Solver, j.res.Seconds, full, j.o.Text)
			if !ok && verbose {
				fmt.Println("     tried:", strings.Join(j.res.Tried, " "), " file:", j.file)
				if j.res.Status == "sat" {
					fmt.Println(indent(modelSummary(j), "     "))
				}
			}
		}
		if j.res.Status == "disagree" {
			machineryErr++
			fmt.Printf("MACHINERY: solvers disagree on %s\n", full)
		}
		if ok {
			st := "unsat"
			if j.o.ExpectSat {
				st = "not-unsat"
			}
			newBase[full] = st
		}
		if cmd == "check" {
			_, claimed := pb[full]
			for _, k := range known {
				// an open known finding is an obligation the property demands and the tree fails:
				// it is tracked even though it is (by definition) not in the discharged baseline
				if k.Property == id && k.Obligation == full && k.Status != "fixed" {
					claimed = true
				}
			}
			if !claimed {
				rep.Status = "unclaimed:" + rep.Status
				unclaimed = append(unclaimed, rep)
				continue
			}
			nClaimed++
			reports = append(reports, rep)
			if ok && boundedFn[j.fr.Key] && j.o.Kind != "cover" {
				// passes only up to the unrolling bound: labelled bounded, never counted as proved
				nClaimed--
				reports[len(reports)-1].Status = "bounded:" + rep.Status
				boundedUndecided = append(boundedUndecided, full)
				continue
			}
			if ok {
				nDischarged++
				continue
			}
			// failed claimed obligation
			isKnown := false
			for _, k := range known {
				if k.Property == id && k.Obligation == full && k.Status != "fixed" {
					isKnown = true
					knownHits = append(knownHits, fmt.Sprintf("KNOWN-FINDING: property=%s %s (%s)", id, k.Text, full))
				}
			}
			if isKnown {
				nClaimed--
				reports = reports[:len(reports)-1]
				continue
			}
			if j.res.Status == "error" {
				// the solvers rejected the query (ill-sorted term, resource failure): a fault of the
				// machinery, not a verdict about the code - undecided, never a violation
				machineryErr++
				fmt.Printf("MACHINERY: solver error on %s\n", full)
				nClaimed--
				reports = reports[:len(reports)-1]
				solverErrs = append(solverErrs, full)
				continue
			}
			if boundedFn[j.fr.Key] && j.res.Status != "sat" {
				// bounded exploration and no counterexample inside the bound: undecided, not a violation
				nClaimed--
				reports = reports[:len(reports)-1]
				boundedUndecided = append(boundedUndecided, full)
				continue
			}
			rp := writeReplay(verif, id, j, e)
			line := fmt.Sprintf("VIOLATION property=%s replay=%s", id, rp.path)
			if !rp.reproduced {
				line += " no-failing-input-found"
			}
			violations = append(violations, line)
			fmt.Printf("  failed obligation: %s [%s] %s\n", full, j.res.Status, j.o.Text)
		} else {
			reports = append(reports, rep)
			nClaimed++
			if ok {
				nDischarged++
			}
		}
	}
	var undecided []string
	for _, fr := range results {
		if fr.Err != nil {
			fmt.Printf("ERROR %s: %v\n", fr.Key, fr.Err)
			machineryErr++
			undecided = append(undecided, fr.Key+": error: "+fr.Err.Error())
		}
		if fr.Undecided != "" {
			fmt.Printf("UNDECIDED %s: %s\n", fr.Key, fr.Undecided)
			undecided = append(undecided, fr.Key+": "+fr.Undecided)
		}
		if boundedFn[fr.Key] {
			fmt.Printf("UNDECIDED %s: %s; the unwinding assertion does not discharge, so the function was explored up to that bound only\n", fr.Key, strings.Join(fr.Bounded, "; "))
			undecided = append(undecided, fr.Key+": bounded: "+strings.Join(fr.Bounded, "; "))
		}
	}
	for _, n := range solverErrs {
		undecided = append(undecided, "solver error (machinery fault): "+n)
	}
	if cmd == "check" {
		// claimed obligations that no longer exist (function undecided, renamed, removed)
		var missing []string
		for name := range pb {
			if !seen[name] {
				missing = append(missing, name)
			}
		}
		sort.Strings(missing)
		if len(missing) > 0 {
			fmt.Printf("UNDECIDED: %d baseline obligation(s) were not generated on this tree (e.g. %s)\n", len(missing), missing[0])
		}
		for _, m := range missing {
			undecided = append(undecided, "baseline obligation not generated: "+m)
		}
	}
	if cmd == "baseline" {
		if filter == "" {
			base[id] = newBase
		} else {
			if base[id] == nil {
				base[id] = map[string]string{}
			}
			for k, v := range newBase {
				base[id][k] = v
			}
		}
		if err := saveBaseline(verif, base); err != nil {
			fatal(err)
		}
		fmt.Printf("baseline for %s: %d obligations recorded (of %d generated)\n", id, len(newBase), len(jobs))
	}
	wall := time.Since(t0).Seconds()
	// evidence
	if cmd == "check" {
		writeEvidence(verif, id, tier, pc, e, results, reports, unclaimed, undecided, nClaimed, nDischarged, len(violations), knownHits, solverTime, wall, tLoad, tGen, tSolve, jobs)
	}
	fmt.Printf("%s %s: %d functions/lemmas, %d obligations (%d claimed, %d discharged), load %.1fs gen %.1fs solve %.1fs\n", id, tier, len(results), len(jobs), nClaimed, nDischarged, tLoad, tGen, tSolve)
	for _, k := range knownHits {
		fmt.Println(k)
	}
	for _, v := range violations {
		fmt.Println(v)
	}
	if cmd == "check" {
		if len(violations) > 0 {
			return 1
		}
		if len(pb) == 0 {
			fmt.Println("no baseline for this property: nothing is claimed")
			return 2
		}
		return 0
	}
	if machineryErr > 0 {
		return 2
	}
	return 0
}

func indent(s, p string) string {
	return p + strings.ReplaceAll(strings.TrimRight(s, "\n"), "\n", "\n"+p)
}

func modelSummary(j *job) string {
	lines := strings.Split(j.res.Output, "\n")
	// the get-value answer is the s-expression after the first line
	var sb strings.Builder
	depth := 0
	started := false
	for _, ln := range lines[1:] {
		if !started && strings.HasPrefix(strings.TrimSpace(ln), "((") {
			started = true
		}
		if started {
			sb.WriteString(ln + "\n")
			depth += strings.Count(ln, "(") - strings.Count(ln, ")")
			if depth <= 0 {
				break
			}
		}
	}
	out := sb.String()
	for i, mv := range j.fr.VC.inputs {
		_ = i
		out = strings.ReplaceAll(out, mv.Term+" ", mv.Name+" = ")
	}
	return out
}

type replayInfo struct {
	path       string
	reproduced bool
}

func writeReplay(verif, id string, j *job, e *Engine) replayInfo {
	dir := filepath.Join(envOr("VERIF_OUT", filepath.Join(verif, "out")), id, "replay")
	_ = os.MkdirAll(dir, 0o755)
	name := sanitize(j.fr.Key + "__" + j.o.Name)
	if len(name) > 150 {
		name = name[:150]
	}
	path := filepath.Join(dir, name+".json")
	rec := map[string]interface{}{
		"property":      id,
		"obligation":    j.fr.Key + "/" + j.o.Name,
		"kind":          j.o.Kind,
		"clause":        j.o.Text,
		"function":      j.fr.Key,
		"source":        fmt.Sprintf("%s:%d", j.o.Pos.Filename, j.o.Pos.Line),
		"solver_status": j.res.Status,
		"solver":        j.res.Solver,
		"solver_tried":  j.res.Tried,
		"smt_file":      j.file,
		"solver_output": truncate(j.res.Output, 20000),
		"baseline":      "this obligation was discharged (unsat) on the unchanged tree",
	}
	if j.res.Status == "sat" {
		rec["counterexample_inputs"] = modelSummary(j)
	}
	info := replayInfo{path: path}
	if j.res.Status == "sat" {
		if rr := tryReplay(verif, e, j); rr != nil {
			rec["replay"] = rr
			if rr.Reproduced {
				info.reproduced = true
			}
		}
	}
	data, _ := json.MarshalIndent(rec, "", " ")
	_ = os.WriteFile(path, data, 0o644)
	return info
}

func truncate(s string, n int) string {
	if len(s) > n {
		return s[:n] + "\n...[truncated]"
	}
	return s
}

func fileHash(path string) string {
	data, err := os.ReadFile(path)
	if err != nil {
		return ""
	}
	h := sha256.Sum256(data)
	return hex.EncodeToString(h[:8])
}

func writeEvidence(verif, id, tier string, pc *PropConfig, e *Engine, results []*FuncResult, reports, unclaimed []oblReport, undecided []string,
	nClaimed, nDischarged, nViol int, knownHits []string, solverTime map[string]float64, wall, tLoad, tGen, tSolve float64, jobs []*job) {
	seed, _ := strconv.Atoi(os.Getenv("VERIF_SEED"))
	trusted := map[string]bool{}
	dropped := map[string]bool{}
	var funcs []map[string]interface{}
	for _, fr := range results {
		f := map[string]interface{}{"function": fr.Key}
		if fr.Pos.Filename != "" {
			f["source"] = fmt.Sprintf("%s:%d", shortFile(fr.Pos.Filename), fr.Pos.Line)
			f["file_sha256_8"] = fileHash(fr.Pos.Filename)
		}
		if fr.VC != nil {
			f["arith"] = fr.VC.ar.Mode.String()
			f["obligations_generated"] = len(fr.VC.obls)
			for t := range fr.VC.trusted {
				trusted[t] = true
			}
			for t := range fr.VC.dropped {
				dropped[t] = true
			}
		}
		if fr.Undecided != "" {
			f["undecided"] = fr.Undecided
		}
		funcs = append(funcs, f)
	}
	tb := []string{"govc VC generator (/verif/engine): translation of go/ssa NaiveForm to SMT-LIB, memory model, loop cutting", "go/ssa and go/types (golang.org/x/tools v0.29.0) as the reading of the source", "SMT solvers z3 5.1.0 / cvc5 1.0.3 / z3 4.8.12 (an unsat answer is trusted)",
		"sequential semantics: sync.Mutex/RWMutex operations and logging calls are no-ops; goroutine interleavings are not modelled"}
	var tl []string
	for t := range trusted {
		tl = append(tl, t)
	}
	sort.Strings(tl)
	tb = append(tb, tl...)
	var dl []string
	for t := range dropped {
		dl = append(dl, t)
	}
	sort.Strings(dl)
	var samples []interface{}
	for i, r := range reports {
		if i >= 6 {
			break
		}
		samples = append(samples, r)
	}
	// one SMT-LIB sample (head of the file of the first ensures/lemma obligation)
	for _, j := range jobs {
		if j.o.Kind == "ensures" || j.o.Kind == "lemma" {
			data, err := os.ReadFile(j.file)
			if err == nil {
				s := string(data)
				if len(s) > 1500 {
					s = s[len(s)-1500:]
				}
				samples = append(samples, map[string]string{"obligation": j.fr.Key + "/" + j.o.Name, "smt2_tail": s})
			}
			break
		}
	}
	if len(samples) == 0 {
		samples = append(samples, "no obligations")
	}
	cov := map[string]interface{}{
		"obligations":              nClaimed,
		"discharged":               nDischarged,
		"checker_cmd":              fmt.Sprintf("/verif/bin/govc check %s %s  (per obligation: z3-new -T:N f.smt2 | cvc5 --tlimit | z3 -T:N; unsat = discharged)", id, tier),
		"trusted_base":             tb,
		"samples":                  samples,
		"functions_under_contract": funcs,
		"obligation_results":       reports,
		"unclaimed_obligations":    unclaimed,
		"undecided":                undecided,
		"known_findings_reported":  knownHits,
		"inlined_or_abstracted":    dl,
		"solver_seconds":           solverTime,
		"phase_seconds":            map[string]float64{"load": tLoad, "generate": tGen, "solve": tSolve},
		"not_covered":              pc.NotCover,
		"bounded_stand_ins":        pc.Bounded,
		"explanation":              pc.Text,
	}
	level := pc.Level
	if level == "" {
		level = "proof"
	}
	ev := map[string]interface{}{
		"property_id": id,
		"tier":        tier,
		"seed":        seed,
		"level":       level,
		"coverage":    cov,
		"assumptions": append(append([]string{}, pc.Assume...), tl...),
		"wall_s":      wall,
		"violations":  nViol,
	}
	evDir := envOr("VERIF_EVIDENCE_DIR", filepath.Join(verif, "evidence"))
	_ = os.MkdirAll(evDir, 0o755)
	data, _ := json.MarshalIndent(ev, "", " ")
	_ = os.WriteFile(filepath.Join(evDir, id+".json"), append(data, '\n'), 0o644)
}
