package main

import (
	"encoding/json"
	"fmt"
	"math/big"
	"go/token"
	"go/types"
	"os"
	"path/filepath"
	"regexp"
	"sort"
	"strings"

	"golang.org/x/tools/go/packages"
	"golang.org/x/tools/go/ssa"
	"golang.org/x/tools/go/ssa/ssautil"
)

const repoModule = "github.com/icon-project/goloop"

type smtSig struct {
	args []string
	res  string
}

type externRule struct {
	re  *regexp.Regexp
	cat string
}

type modelFn func(x *Exec, fr *frame, st *State, args []Val, pos token.Pos) (Val, error)

type Engine struct {
	repo       string
	verif      string
	fset       *token.FileSet
	prog       *ssa.Program
	pkgs       map[string]*packages.Package
	contracts  map[string]*FuncContract
	ifaceCs    map[string]*FuncContract
	lemmas     map[string]*Lemma
	lemmaList  []*Lemma
	specFuncs  map[string]*SpecFunc
	smtDefs    []*SmtDef
	foreignCache map[string]string
	smtFuns    map[string]smtSig
	smtSorts   map[string]string
	ghostSorts map[string]string
	externs    []externRule
	models     map[string]modelFn
	files      []*ContractFile
	inlineOK   []*regexp.Regexp
	sentinels  map[*ssa.Global]bool
	verbose    bool
}

func NewEngine(repo, verif string) *Engine {
	e := &Engine{repo: repo, verif: verif, pkgs: map[string]*packages.Package{}, contracts: map[string]*FuncContract{}, ifaceCs: map[string]*FuncContract{},
		lemmas: map[string]*Lemma{}, specFuncs: map[string]*SpecFunc{}, smtFuns: map[string]smtSig{}, smtSorts: map[string]string{}, ghostSorts: map[string]string{},
		models: map[string]modelFn{}}
	registerModels(e)
	// prelude functions of the Int mode that specifications may use
	e.smtFuns["tdiv"] = smtSig{[]string{"Int", "Int"}, "Int"}
	e.smtFuns["tmod"] = smtSig{[]string{"Int", "Int"}, "Int"}
	return e
}

func (e *Engine) Load(patterns []string) error {
	cfg := &packages.Config{Mode: packages.LoadAllSyntax, Dir: e.repo, BuildFlags: []string{"-tags=verif"},
		Env: append(os.Environ(), "GOFLAGS=-mod=mod", "GOPROXY=off", "GOSUMDB=off", "GOTOOLCHAIN=local")}
	pkgs, err := packages.Load(cfg, patterns...)
	if err != nil {
		return err
	}
	var errs []string
	packages.Visit(pkgs, nil, func(p *packages.Package) {
		e.pkgs[p.PkgPath] = p
		if strings.HasPrefix(p.PkgPath, repoModule) {
			for _, pe := range p.Errors {
				errs = append(errs, pe.Error())
			}
		}
	})
	if len(errs) > 0 {
		return fmt.Errorf("package errors: %s", strings.Join(errs, "; "))
	}
	prog, _ := ssautil.AllPackages(pkgs, ssa.NaiveForm|ssa.InstantiateGenerics)
	e.prog = prog
	e.fset = prog.Fset
	for _, p := range pkgs {
		if sp := prog.Package(p.Types); sp != nil {
			sp.Build()
		}
	}
	return nil
}

func (e *Engine) pkgByPath(path string) *types.Package {
	if p, ok := e.pkgs[path]; ok {
		return p.Types
	}
	return nil
}

// LoadContracts reads contract files of every loaded repo package plus /verif/specs/*.gospec.
func (e *Engine) LoadContracts() error {
	var paths []string
	for path := range e.pkgs {
		paths = append(paths, path)
	}
	sort.Strings(paths)
	for _, path := range paths {
		p := e.pkgs[path]
		if !strings.HasPrefix(path, repoModule) || len(p.GoFiles) == 0 {
			continue
		}
		dir := filepath.Dir(p.GoFiles[0])
		f := filepath.Join(dir, "zz_contracts_verif.go")
		if _, err := os.Stat(f); err != nil {
			continue
		}
		cf, err := ParseContractFile(f, path)
		if err != nil {
			return err
		}
		if err := e.register(cf); err != nil {
			return err
		}
	}
	specs, _ := filepath.Glob(filepath.Join(e.verif, "specs", "*.gospec"))
	sort.Strings(specs)
	for _, f := range specs {
		data, err := os.ReadFile(f)
		if err != nil {
			return err
		}
		pkg := ""
		if m := regexp.MustCompile(`(?m)^//@\s*package\s+(\S+)`).FindStringSubmatch(string(data)); m != nil {
			pkg = m[1]
		}
		if pkg != "" {
			if _, ok := e.pkgs[pkg]; !ok {
				continue // package not part of this load
			}
		}
		cf, err := ParseContractFile(f, pkg)
		if err != nil {
			return err
		}
		for _, fc := range cf.Funcs {
			// contracts in specs/ are trusted, loop-only (for inlining), or - for library packages whose
			// source is loaded from GOROOT - verified like any other function ("opt verify-lib")
			if !fc.Trusted && fc.Opts["looponly"] == "" && fc.Opts["verify-lib"] == "" {
				return fmt.Errorf("%s:%d: contracts in specs/ must be trusted, looponly or verify-lib", f, fc.Line)
			}
		}
		if err := e.register(cf); err != nil {
			return err
		}
	}
	// extern rules
	data, err := os.ReadFile(filepath.Join(e.verif, "specs", "externs.txt"))
	if err == nil {
		for i, ln := range strings.Split(string(data), "\n") {
			ln = strings.TrimSpace(ln)
			if ln == "" || strings.HasPrefix(ln, "#") {
				continue
			}
			f := strings.Fields(ln)
			if len(f) < 2 {
				return fmt.Errorf("externs.txt:%d: need 'category regexp'", i+1)
			}
			if f[0] == "inline" {
				re, err := regexp.Compile("^" + f[1] + "$")
				if err != nil {
					return fmt.Errorf("externs.txt:%d: %v", i+1, err)
				}
				e.inlineOK = append(e.inlineOK, re)
				continue
			}
			re, err := regexp.Compile("^" + f[1] + "$")
			if err != nil {
				return fmt.Errorf("externs.txt:%d: %v", i+1, err)
			}
			e.externs = append(e.externs, externRule{re, f[0]})
		}
	}
	return nil
}

var pkgLineRe = regexp.MustCompile(`^package\b`)
var smtIdentRe = regexp.MustCompile(`[A-Za-z_][A-Za-z0-9_.!$]*`)

func (e *Engine) register(cf *ContractFile) error {
	e.files = append(e.files, cf)
	for _, fc := range cf.Funcs {
		if fc.IfaceOf != "" {
			e.ifaceCs[fc.Pkg+"."+fc.IfaceOf+"."+fc.Name] = fc
			continue
		}
		if _, dup := e.contracts[fc.Key()]; dup {
			return fmt.Errorf("%s:%d: duplicate contract for %s", fc.File, fc.Line, fc.Key())
		}
		e.contracts[fc.Key()] = fc
	}
	for _, l := range cf.Lemmas {
		if _, dup := e.lemmas[l.Name]; dup {
			return fmt.Errorf("%s: duplicate lemma %s", cf.Path, l.Name)
		}
		e.lemmas[l.Name] = l
		e.lemmaList = append(e.lemmaList, l)
	}
	for _, s := range cf.Specs {
		if _, dup := e.specFuncs[s.Name]; dup {
			return fmt.Errorf("%s: duplicate spec %s", cf.Path, s.Name)
		}
		e.specFuncs[s.Name] = s
	}
	for _, d := range cf.Smt {
		e.smtDefs = append(e.smtDefs, d)
		if err := e.parseSmtSig(d.Text); err != nil {
			return fmt.Errorf("%s: %v", cf.Path, err)
		}
	}
	return nil
}

var (
	declFunRe  = regexp.MustCompile(`^\(declare-fun\s+(\S+)\s+\(([^)]*(?:\([^)]*\)[^)]*)*)\)\s+(.+)\)\s*$`)
	declConRe  = regexp.MustCompile(`^\(declare-const\s+(\S+)\s+(.+)\)\s*$`)
	defFunRe   = regexp.MustCompile(`^\(define-fun(?:-rec)?\s+(\S+)\s+\(`)
	ghostDecRe = regexp.MustCompile(`^\(declare-ghost\s+(\S+)\s+(.+)\)\s*$`)
)

// splitSexprs splits a string of whitespace-separated s-expressions/atoms at top level.
func splitSexprs(s string) []string {
	var out []string
	depth := 0
	start := -1
	for i, c := range s {
		switch {
		case c == '(':
			if depth == 0 && start < 0 {
				start = i
			}
			depth++
		case c == ')':
			depth--
			if depth == 0 {
				out = append(out, s[start:i+1])
				start = -1
			}
		case c == ' ' || c == '\t':
			if depth == 0 && start >= 0 {
				out = append(out, s[start:i])
				start = -1
			}
		default:
			if start < 0 {
				start = i
			}
		}
	}
	if start >= 0 {
		out = append(out, s[start:])
	}
	return out
}

func (e *Engine) parseSmtSig(text string) error {
	text = strings.TrimSpace(text)
	if m := ghostDecRe.FindStringSubmatch(text); m != nil {
		e.ghostSorts[m[1]] = m[2]
		return nil
	}
	if m := declConRe.FindStringSubmatch(text); m != nil {
		e.smtSorts[m[1]] = m[2]
		return nil
	}
	if strings.HasPrefix(text, "(declare-fun") {
		parts := splitSexprs(text[1 : len(text)-1])
		if len(parts) != 4 {
			return fmt.Errorf("cannot parse %q", text)
		}
		args := splitSexprs(strings.TrimSpace(parts[2][1 : len(parts[2])-1]))
		e.smtFuns[parts[1]] = smtSig{args, parts[3]}
		return nil
	}
	if defFunRe.MatchString(text) {
		parts := splitSexprs(text[1 : len(text)-1])
		if len(parts) < 5 {
			return fmt.Errorf("cannot parse %q", text)
		}
		var args []string
		for _, p := range splitSexprs(strings.TrimSpace(parts[2][1 : len(parts[2])-1])) {
			q := splitSexprs(p[1 : len(p)-1])
			if len(q) != 2 {
				return fmt.Errorf("cannot parse parameter %q", p)
			}
			args = append(args, q[1])
		}
		if len(args) == 0 {
			e.smtSorts[parts[1]] = parts[3]
		}
		e.smtFuns[parts[1]] = smtSig{args, parts[3]}
		return nil
	}
	if strings.HasPrefix(text, "(assert") || strings.HasPrefix(text, "(declare-sort") || strings.HasPrefix(text, "(declare-datatypes") {
		return nil
	}
	return fmt.Errorf("unsupported smt line %q", text)
}

// smtSort instantiates sort placeholders for a mode.
func (e *Engine) smtSort(s string, m Mode) string {
	return substSorts(s, m)
}

var sortPlaceholders = regexp.MustCompile(`\b(IDX|BYTE|W8|W16|W32|W64)\b`)

func substSorts(s string, m Mode) string {
	return sortPlaceholders.ReplaceAllStringFunc(s, func(p string) string {
		if m == ModeInt {
			return "Int"
		}
		switch p {
		case "IDX", "W64":
			return "(_ BitVec 64)"
		case "BYTE", "W8":
			return "(_ BitVec 8)"
		case "W16":
			return "(_ BitVec 16)"
		case "W32":
			return "(_ BitVec 32)"
		}
		return p
	})
}

func (vc *VC) useSmt(name string) {}

func (e *Engine) contractFor(fn *ssa.Function) *FuncContract {
	if fn == nil || fn.Pkg == nil {
		if fn != nil && fn.Origin() != nil {
			return e.contractFor(fn.Origin())
		}
		return nil
	}
	key := fn.Pkg.Pkg.Path() + "." + fn.Name()
	if recv := fn.Signature.Recv(); recv != nil {
		n := namedOf(recv.Type())
		if n == nil {
			return nil
		}
		key = fn.Pkg.Pkg.Path() + ".(" + n.Obj().Name() + ")." + fn.Name()
	}
	return e.contracts[key]
}

func (e *Engine) ifaceContract(ifaceKey, method string) *FuncContract {
	return e.ifaceCs[ifaceKey+"."+method]
}

func (e *Engine) externCat(full string) (string, bool) {
	for _, r := range e.externs {
		if r.re.MatchString(full) {
			return r.cat, true
		}
	}
	return "", false
}

func (e *Engine) modelFor(full string) modelFn { return e.models[full] }

func (e *Engine) inRepo(fn *ssa.Function) bool {
	return fn.Pkg != nil && strings.HasPrefix(fn.Pkg.Pkg.Path(), repoModule)
}

func (e *Engine) inlinable(fn *ssa.Function) bool {
	n := 0
	for _, b := range fn.Blocks {
		n += len(b.Instrs)
	}
	if n > 600 {
		return false
	}
	if e.inRepo(fn) {
		return true
	}
	if fn.Pkg == nil {
		// synthetic or anonymous function: inlinable if its parent is
		if fn.Parent() != nil {
			return e.inlinable(fn.Parent())
		}
		return false
	}
	full := fn.String()
	for _, re := range e.inlineOK {
		if re.MatchString(full) {
			return true
		}
	}
	return false
}

// findFunc locates the ssa function a contract is about.
func (e *Engine) findFunc(fc *FuncContract) (*ssa.Function, error) {
	p := e.pkgs[fc.Pkg]
	if p == nil {
		return nil, fmt.Errorf("package %s not loaded", fc.Pkg)
	}
	sp := e.prog.Package(p.Types)
	if sp == nil {
		return nil, fmt.Errorf("no ssa package for %s", fc.Pkg)
	}
	sp.Build() // dependencies are built on demand (no-op when already built)
	if fc.Recv == "" {
		fn := sp.Func(fc.Name)
		if fn == nil {
			return nil, fmt.Errorf("function %s.%s not found", fc.Pkg, fc.Name)
		}
		return fn, nil
	}
	tn, ok := p.Types.Scope().Lookup(fc.Recv).(*types.TypeName)
	if !ok {
		return nil, fmt.Errorf("type %s.%s not found", fc.Pkg, fc.Recv)
	}
	for _, t := range []types.Type{tn.Type(), types.NewPointer(tn.Type())} {
		ms := e.prog.MethodSets.MethodSet(t)
		for i := 0; i < ms.Len(); i++ {
			sel := ms.At(i)
			if sel.Obj().Name() == fc.Name && len(sel.Index()) == 1 {
				fn := e.prog.MethodValue(sel)
				if fn != nil && fn.Synthetic == "" {
					return fn, nil
				}
				if fn != nil && fn.Synthetic != "" {
					// wrapper for value receiver: find declared function
					if d := e.prog.FuncValue(sel.Obj().(*types.Func)); d != nil {
						return d, nil
					}
				}
			}
		}
	}
	return nil, fmt.Errorf("method %s.(%s).%s not found", fc.Pkg, fc.Recv, fc.Name)
}

// ---------------------------------------------------------------------------
// verification of one function

type FuncResult struct {
	Key       string
	VC        *VC
	Err       error
	Undecided string
	Bounded   []string
	SrcHash   string
	Pos       token.Position
}

func (e *Engine) VerifyFunc(fc *FuncContract) *FuncResult {
	res := &FuncResult{Key: fc.Key()}
	fn, err := e.findFunc(fc)
	if err != nil {
		res.Undecided = "contract cannot be bound: " + err.Error()
		return res
	}
	res.Pos = e.fset.Position(fn.Pos())
	mode := ModeInt
	if fc.ModeSet {
		mode = fc.Mode
	}
	vc := newVC(e, mode, fc.Key())
	vc.bseqExt = fc.Opts["bseq-ext"] != ""
	res.VC = vc
	x := &Exec{vc: vc, eng: e, fc: fc, top: fn, safety: !fc.NoSafety, siteSeq: map[string]int{}, overflw: fc.Overflow}
	names := x.contractNames(fc)
	if len(names) != len(fn.Params) {
		res.Undecided = fmt.Sprintf("contract names %d parameters, function has %d", len(names), len(fn.Params))
		return res
	}
	nres := fn.Signature.Results().Len()
	if len(fc.Results) != 0 && len(fc.Results) != nres {
		res.Undecided = fmt.Sprintf("contract names %d results, function has %d", len(fc.Results), nres)
		return res
	}
	st := newState()
	x.params = map[string]Val{}
	var args []Val
	for i, p := range fn.Params {
		v := vc.freshConst("in_"+names[i], vc.sortOf(p.Type()))
		vc.assert(vc.wf(st, v, p.Type(), 0))
		val := Val{T: v, Typ: p.Type()}
		args = append(args, val)
		x.params[names[i]] = val
		vc.inputs = append(vc.inputs, ModelVar{names[i], v.S})
	}
	x.entry = st.clone()
	env := x.specEnv(&frame{fn: fn, fc: fc}, x.entry, nil)
	env.fr = nil
	env.pkg = fn.Pkg.Pkg
	env.pol = 1
	for _, r := range fc.Requires {
		t, err := x.evalBool(r.Expr, env)
		if err != nil {
			res.Err = fmt.Errorf("%s:%d: requires: %w", r.File, r.Line, err)
			return res
		}
		vc.assert(t)
	}
	if err := x.useLemmas(fc.Uses); err != nil {
		res.Err = err
		return res
	}
	if !fc.ModAll {
		ts, err := x.modTargets(fc, env)
		if err != nil {
			res.Err = err
			return res
		}
		x.topTargets = ts
	}
	if ptxt := fc.Opts["protect"]; ptxt != "" {
		for _, part := range splitTop(ptxt, ',') {
			pe, err := ParseExpr(part)
			if err != nil {
				res.Err = fmt.Errorf("%s: protect: %v", fc.Key(), err)
				return res
			}
			ts, err := x.designator(pe, env)
			if err != nil {
				res.Err = fmt.Errorf("%s: protect %s: %w", fc.Key(), part, err)
				return res
			}
			x.protect = append(x.protect, ts...)
		}
		vc.trusted["assumed in "+fc.Key()+": calls with unknown effects do not modify "+ptxt] = true
	}
	if ptxt := fc.Opts["protect-local"]; ptxt != "" {
		// designators over local variables (objects the function creates and has not handed out
		// yet): evaluated at each call with unknown effects, skipped while the local is not live
		for _, part := range splitTop(ptxt, ',') {
			pe, err := ParseExpr(part)
			if err != nil {
				res.Err = fmt.Errorf("%s: protect-local: %v", fc.Key(), err)
				return res
			}
			x.lateProt = append(x.lateProt, pe)
		}
		x.lateText = ptxt
		vc.trusted["assumed in "+fc.Key()+": calls with unknown effects do not modify "+ptxt+" (objects created by the function and not yet handed out)"] = true
	}
	// vacuity: precondition satisfiable
	vc.obls = append(vc.obls, &Obligation{Name: "cover/requires", Kind: "cover", Goal: TFalse, TraceLen: len(vc.trace), Pos: res.Pos, ExpectSat: true, Text: "precondition is satisfiable", Func: fc.Key(), Claimed: true})
	out, rv, err := x.execFunc(fn, args, nil, st, "", 0)
	res.Bounded = x.bounded
	if err != nil {
		if u, ok := err.(*Unsupported); ok {
			res.Undecided = u.Msg
			return res
		}
		res.Err = err
		return res
	}
	// vacuity guard: a call rule that matched no call site says nothing (typically the callee has
	// no contract, so its calls are of unknown effect and carry no rules)
	{
		var dead []string
		for key := range fc.CallPre {
			if !x.cpHit[key] {
				dead = append(dead, key)
			}
		}
		sort.Strings(dead)
		if len(dead) > 0 {
			res.Err = fmt.Errorf("%s: call rule(s) match no call site: callpre %s (does the callee have a contract?)", fc.Key(), strings.Join(dead, ", "))
			return res
		}
	}
	if out.pc.B == -1 {
		if !fc.MayPanic {
			vc.obls = append(vc.obls, &Obligation{Name: "cover/return", Kind: "cover", Goal: TFalse, TraceLen: len(vc.trace), Pos: res.Pos, ExpectSat: true, Text: "some execution returns normally", Func: fc.Key(), Claimed: true})
			vc.assert(TFalse)
		}
		return res
	}
	// reachability of the exit
	vc.obls = append(vc.obls, &Obligation{Name: "cover/return", Kind: "cover", Goal: Not(out.pc), TraceLen: len(vc.trace), Pos: res.Pos, ExpectSat: true, Text: "some execution returns normally", Func: fc.Key(), Claimed: true})
	// vacuity guard for conditional postconditions: the antecedent of every "A ==> B" clause must be
	// reachable at the (merged) exit, otherwise the clause says nothing about this code
	{
		cpost := map[string]Val{}
		for k, v := range x.params {
			cpost[k] = v
		}
		if len(fc.Results) > 0 {
			if rv.Tuple != nil {
				for i, n := range fc.Results {
					cpost[n] = rv.Tuple[i]
				}
			} else {
				cpost[fc.Results[0]] = rv
			}
		}
		for i, en := range fc.Ensures {
			if fc.Trusted && !strings.HasPrefix(en.Tag, "body:") {
				continue
			}
			be, ok := en.Expr.(*EBinary)
			if !ok || be.Op != "==>" {
				continue
			}
			cenv := &SpecEnv{x: x, st: out, old: x.entry, vars: cpost, pkg: fn.Pkg.Pkg, inCall: true}
			a, err := x.evalBool(be.X, cenv)
			if err != nil {
				continue
			}
			name := fmt.Sprintf("cover/ensures#%d", i)
			if en.Tag != "" {
				name = "cover/ensures:" + en.Tag
			}
			vc.obls = append(vc.obls, &Obligation{Name: name, Kind: "cover", Goal: Not(And(out.pc, a)), TraceLen: len(vc.trace), Pos: res.Pos, ExpectSat: true,
				Text: "antecedent reachable: " + en.Text, Func: fc.Key(), Claimed: true})
		}
	}
	exitsList := []retEdge{{out, rv}}
	if fc.Opts["nomerge"] != "" && len(x.topReturns) > 1 {
		exitsList = x.topReturns
	}
	for _, ex := range exitsList {
		out, rv := ex.st, ex.res
		out.defers = nil
		post := map[string]Val{}
		for k, v := range x.params {
			post[k] = v
		}
		if len(fc.Results) > 0 {
			if rv.Tuple != nil {
				for i, n := range fc.Results {
					post[n] = rv.Tuple[i]
				}
			} else {
				post[fc.Results[0]] = rv
			}
		}
		penv := &SpecEnv{x: x, st: out, old: x.entry, vars: post, pkg: fn.Pkg.Pkg, inCall: true, pol: -1}
		for i, en := range fc.Ensures {
			if fc.Trusted && !strings.HasPrefix(en.Tag, "body:") {
				// "trusted" + "opt verify-body": callers rely on the trusted clauses (abstractions of
				// external code); the body is checked against the [body:...] clauses and call rules only
				continue
			}
			t, err := x.evalBool(en.Expr, penv)
			if err != nil {
				res.Err = fmt.Errorf("%s:%d: ensures: %w", en.File, en.Line, err)
				return res
			}
			name := fmt.Sprintf("ensures#%d", i)
			if en.Tag != "" {
				name = "ensures:" + en.Tag
			}
			vc.oblige("ensures", name, out.pc, t, e.fset.Position(fn.Pos()), en.Text)
			if vc.dry == 0 && len(vc.obls) > 0 {
				o := vc.obls[len(vc.obls)-1]
				if rv.Tuple != nil {
					o.ResTerms = rv.Tuple
				} else if !rv.isZero() {
					o.ResTerms = []Val{rv}
				}
				ek, es := vc.elemKey(types.Typ[types.Uint8])
				o.ExitE = vc.heapGet(out, ek, es).S
				o.EntryE = vc.heapGet(x.entry, ek, es).S
			}
		}
		// ghost frame: ghost variables that are not declared (modifies ghost(x)) keep their entry value
		if !fc.ModAll && !fc.NoFrame {
			var gks []string
			for k := range out.ghost {
				gks = append(gks, k)
			}
			sort.Strings(gks)
			for _, k := range gks {
				if fc.Opts["modghost:"+k] != "" {
					continue
				}
				entryV, ok := x.entry.ghost[k]
				if !ok {
					entryV = vc.ghostInitial(k, out.ghost[k].Sort)
				}
				if entryV.S == out.ghost[k].S {
					continue
				}
				vc.oblige("frame", "frame/ghost:"+k, out.pc, Eq(out.ghost[k], entryV), res.Pos, "ghost variable "+k+" is not in the modifies clause and keeps its value")
			}
		}
		// frame
		if !fc.ModAll && !fc.NoFrame {
			if out.epoch != 0 {
				vc.oblige("frame", "frame/unknown-call", out.pc, TFalse, res.Pos, "a call with unknown effects happens but the contract has a modifies clause")
			}
			keys := sortedKeys(out.heap)
			for _, k := range keys {
				if k == "$alloc" {
					continue
				}
				h := out.heap[k]
				if h.S == "H0_"+sanitize(k) {
					continue
				}
				f := x.frameFormula(k, h.Sort, h)
				if f.B == 1 {
					continue
				}
				vc.oblige("frame", "frame/"+k, out.pc, f, res.Pos, "only locations in the modifies clause change ("+k+")")
			}
		}
	}
	return res
}

func (x *Exec) useLemmas(names []string) error {
	for _, n := range names {
		l := x.eng.lemmas[n]
		if l == nil {
			return fmt.Errorf("unknown lemma %q", n)
		}
		if l.Mode != x.vc.ar.Mode {
			return fmt.Errorf("lemma %s is %s-mode, function is %s-mode", n, l.Mode, x.vc.ar.Mode)
		}
		env := &SpecEnv{x: x, st: newState(), vars: map[string]Val{}, pkg: x.eng.pkgByPath(l.Pkg), inCall: true, pol: 1}
		if l.Induct != "" {
			if l.Mode != ModeInt {
				return fmt.Errorf("induction lemma %s must be int-mode", n)
			}
			env.vars[l.Induct] = Val{T: raw("k!ind", SInt)}
		}
		body := l.Body.Expr
		if q, ok := body.(*EQuant); ok && l.Induct != "" && q.Forall {
			// merge the induction variable into the lemma's own quantifier so that its triggers apply
			delete(env.vars, l.Induct)
			body = &EQuant{Forall: true, Vars: append([]QVar{{l.Induct, "mathint"}}, q.Vars...), Trig: q.Trig,
				Body: &EBinary{"==>", &EBinary{">=", &EIdent{l.Induct}, &EInt{"0"}}, q.Body}}
		}
		t, err := x.evalBool(body, env)
		if err != nil {
			return fmt.Errorf("lemma %s: %w", n, err)
		}
		if l.Induct != "" {
			if _, merged := body.(*EQuant); !merged || body == l.Body.Expr {
				t = raw("(forall ((k!ind Int)) (=> (>= k!ind 0) "+t.S+"))", SBool)
			}
			x.vc.trusted["induction schema over the naturals applied by govc for lemma "+l.Name+" (base and step are obligations)"] = true
		}
		x.vc.assert(t)
		if l.IsAxiom {
			x.vc.trusted["axiom: "+l.Name+": "+l.Body.Text] = true
		} else {
			x.vc.dropped["lemma used: "+l.Name] = true
		}
	}
	return nil
}

// VerifyLemma produces the single obligation of a lemma.
func (e *Engine) VerifyLemma(l *Lemma) *FuncResult {
	res := &FuncResult{Key: "lemma/" + l.Name}
	vc := newVC(e, l.Mode, res.Key)
	res.VC = vc
	x := &Exec{vc: vc, eng: e, siteSeq: map[string]int{}}
	if err := x.useLemmas(l.Uses); err != nil {
		res.Err = err
		return res
	}
	vc.isLemma = true
	pos := token.Position{Filename: l.Body.File, Line: l.Body.Line}
	if l.Induct != "" {
		// base: P(0); step: k >= 0 && P(k) ==> P(k+1)   (other variables are quantified inside P)
		k := vc.freshConst("ind_"+l.Induct, SInt)
		at := func(kt Term) (Term, error) {
			env := &SpecEnv{x: x, st: newState(), vars: map[string]Val{l.Induct: {T: kt}}, pkg: e.pkgByPath(l.Pkg), inCall: true}
			return x.evalBool(l.Body.Expr, env)
		}
		p0, err := at(intLit64(0))
		if err != nil {
			res.Err = fmt.Errorf("%s:%d: lemma %s: %w", l.Body.File, l.Body.Line, l.Name, err)
			return res
		}
		vc.oblige("lemma", "lemma/"+l.Name+"/base", TTrue, p0, pos, l.Body.Text+"   ["+l.Induct+" = 0]")
		pk, err := at(k)
		if err != nil {
			res.Err = err
			return res
		}
		pk1, err := at(app(SInt, "+", k, intLit64(1)))
		if err != nil {
			res.Err = err
			return res
		}
		vc.oblige("lemma", "lemma/"+l.Name+"/step", TTrue, Implies(And(app(SBool, ">=", k, intLit64(0)), pk), pk1), pos, l.Body.Text+"   ["+l.Induct+" -> "+l.Induct+"+1]")
		return res
	}
	env := &SpecEnv{x: x, st: newState(), vars: map[string]Val{}, pkg: e.pkgByPath(l.Pkg), inCall: true}
	t, err := x.evalBool(l.Body.Expr, env)
	if err != nil {
		res.Err = fmt.Errorf("%s:%d: lemma %s: %w", l.Body.File, l.Body.Line, l.Name, err)
		return res
	}
	vc.oblige("lemma", "lemma/"+l.Name, TTrue, t, pos, l.Body.Text)
	return res
}

// ---------------------------------------------------------------------------
// SMT files

func (e *Engine) smtFile(vc *VC, o *Obligation, withModel bool) string {
	var sb strings.Builder
	if withModel {
		sb.WriteString("(set-option :produce-models true)\n")
	}
	sb.WriteString("(set-logic ALL)\n")
	if vc.ar.Mode == ModeInt {
		sb.WriteString(intPreamble)
	}
	// declarations are emitted in creation order, but user smt definitions may
	// reference sorts declared by the VC (Slice, ...), so they follow the built-in sorts.
	nBuiltin := 0
	for i, d := range vc.decls {
		if strings.HasPrefix(d, "(declare-datatypes ((Slice") || strings.HasPrefix(d, "(declare-datatypes ((Iface") || strings.HasPrefix(d, "(declare-sort Str") || strings.HasPrefix(d, "(declare-sort Float") || strings.HasPrefix(d, "(declare-sort BSeq") || strings.HasPrefix(d, "(declare-fun gs.") {
			nBuiltin = i + 1
		} else {
			break
		}
	}
	for _, d := range vc.decls[:nBuiltin] {
		sb.WriteString(d)
		sb.WriteByte('\n')
	}
	// User SMT definitions: only those the VC (transitively) refers to are emitted, so that
	// library axioms of one property never change the solver's behaviour on another.
	// Order: declarations first (a definition in one package may use a symbol declared in
	// another), then definitions, then assertions; file order within each class.
	type cand struct {
		text  string
		name  string // declared / defined symbol ("" for assertions)
		class int
	}
	var cands []cand
	for _, d := range e.smtDefs {
		if d.Scope == "lemma" && !vc.isLemma {
			continue
		}
		if d.Scope == "func" && vc.isLemma {
			continue
		}
		if d.Mode != "all" && d.Mode != vc.ar.Mode.String() {
			continue
		}
		t := substSorts(d.Text, vc.ar.Mode)
		if strings.HasPrefix(t, "(declare-ghost") {
			continue
		}
		c := cand{text: t, class: 1}
		switch {
		case strings.HasPrefix(t, "(declare-"):
			c.class = 0
		case strings.HasPrefix(t, "(assert"):
			c.class = 2
		}
		if c.class != 2 {
			if f := strings.Fields(t); len(f) >= 2 {
				c.name = strings.Trim(f[1], "()")
			}
		}
		cands = append(cands, c)
	}
	var body strings.Builder
	for _, d := range vc.decls[nBuiltin:] {
		body.WriteString(d)
		body.WriteByte('\n')
	}
	for _, t := range vc.trace[:o.TraceLen] {
		body.WriteString(t)
		body.WriteByte('\n')
	}
	body.WriteString(o.Goal.S)
	names := map[string]bool{}
	for _, c := range cands {
		if c.name != "" {
			names[c.name] = true
		}
	}
	used := map[string]bool{}
	mark := func(text string) {
		for _, id := range smtIdentRe.FindAllString(text, -1) {
			if names[id] {
				used[id] = true
			}
		}
	}
	mark(body.String())
	include := make([]bool, len(cands))
	for changed := true; changed; {
		changed = false
		for i, c := range cands {
			if include[i] {
				continue
			}
			take := false
			if c.name != "" {
				take = used[c.name]
			} else {
				// an assertion (axiom) is relevant when every user symbol it mentions is in use
				ids := smtIdentRe.FindAllString(c.text, -1)
				n, all := 0, true
				for _, id := range ids {
					if names[id] {
						n++
						if !used[id] {
							all = false
						}
					}
				}
				take = n > 0 && all
			}
			if take {
				include[i] = true
				before := len(used)
				mark(c.text)
				if len(used) != before {
					changed = true
				}
				changed = true
			}
		}
	}
	for pass := 0; pass < 3; pass++ {
		for i, c := range cands {
			if include[i] && c.class == pass {
				sb.WriteString(c.text)
				sb.WriteByte('\n')
			}
		}
	}
	if vc.ar.Mode == ModeInt && strings.Contains(body.String(), "(int_or ") {
		sb.WriteString(intOrAxioms())
	}
	for _, d := range vc.decls[nBuiltin:] {
		sb.WriteString(d)
		sb.WriteByte('\n')
	}
	for _, t := range vc.trace[:o.TraceLen] {
		sb.WriteString(t)
		sb.WriteByte('\n')
	}
	sb.WriteString("(assert (not " + o.Goal.S + "))\n")
	sb.WriteString("(check-sat)\n")
	if withModel {
		if len(vc.inputs) > 0 {
			sb.WriteString("(get-value (")
			for _, mv := range vc.inputs {
				sb.WriteString(mv.Term + " ")
			}
			sb.WriteString("))\n")
		}
		sb.WriteString("(get-model)\n")
	}
	return sb.String()
}

// ---------------------------------------------------------------------------
// property configuration

type PropConfig struct {
	Packages  []string `json:"packages"`
	Level     string   `json:"level"`
	NotCover  []string `json:"not_covered"`
	Assume    []string `json:"assumptions"`
	Technique string   `json:"technique"`
	Text      string   `json:"text"`
	Note      string   `json:"note"`
	DesignRef string   `json:"design_ref"`
	Bounded   []string `json:"bounded"`
}

func LoadProps(verif string) (map[string]*PropConfig, error) {
	data, err := os.ReadFile(filepath.Join(verif, "props.json"))
	if err != nil {
		return nil, err
	}
	m := map[string]*PropConfig{}
	if err := json.Unmarshal(data, &m); err != nil {
		return nil, err
	}
	return m, nil
}

func hasProp(props []string, id string) bool {
	for _, p := range props {
		if p == id {
			return true
		}
	}
	return false
}

// intOrAxioms: in Int mode | is uninterpreted except for the byte-assembly idiom: or-ing a value
// below 2^k with a non-negative multiple of 2^k is addition (k = 8, 16, ..., 56).
func intOrAxioms() string {
	var sb strings.Builder
	for k := 8; k <= 56; k += 8 {
		m := new(big.Int).Lsh(big.NewInt(1), uint(k)).String()
		fmt.Fprintf(&sb, "(assert (forall ((a Int) (b Int)) (! (=> (and (<= 0 a) (< a %s) (<= 0 b) (= (mod b %s) 0)) (and (= (int_or a b) (+ a b)) (= (int_or b a) (+ a b)))) :pattern ((int_or a b)) :pattern ((int_or b a)))))\n", m, m)
	}
	return sb.String()
}

// sentinelError reports whether g is an error-typed package variable that its package's init
// function sets exactly once to a value that cannot be nil (a MakeInterface, or the result of a
// constructor in the pure-nonnil extern category) and that no other function of that package
// stores to or takes the address of.
func (e *Engine) sentinelError(g *ssa.Global) bool {
	if r, ok := e.sentinels[g]; ok {
		return r
	}
	res := func() bool {
		t := g.Type().(*types.Pointer).Elem()
		if _, ok := t.Underlying().(*types.Interface); !ok || g.Pkg == nil {
			return false
		}
		if n, ok := t.(*types.Named); !ok || n.Obj().Name() != "error" || n.Obj().Pkg() != nil {
			return false
		}
		g.Pkg.Build()
		initStores := 0
		ok := true
		var visit func(fn *ssa.Function)
		seen := map[*ssa.Function]bool{}
		visit = func(fn *ssa.Function) {
			if fn == nil || seen[fn] {
				return
			}
			seen[fn] = true
			for _, b := range fn.Blocks {
				for _, in := range b.Instrs {
					for _, op := range in.Operands(nil) {
						if *op != ssa.Value(g) {
							continue
						}
						switch i := in.(type) {
						case *ssa.UnOp: // load
						case *ssa.Store:
							if i.Addr != ssa.Value(g) || fn.Name() != "init" || fn.Parent() != nil {
								ok = false
								break
							}
							initStores++
							switch v := i.Val.(type) {
							case *ssa.MakeInterface:
							case *ssa.Call:
								callee := v.Call.StaticCallee()
								if callee == nil {
									ok = false
								} else if cat, has := e.externCat(callee.String()); !has || cat != "pure-nonnil" {
									ok = false
								}
							default:
								ok = false
							}
						default:
							ok = false
						}
					}
				}
			}
			for _, a := range fn.AnonFuncs {
				visit(a)
			}
		}
		for _, m := range g.Pkg.Members {
			switch mm := m.(type) {
			case *ssa.Function:
				visit(mm)
			case *ssa.Type:
				for _, tt := range []types.Type{mm.Type(), types.NewPointer(mm.Type())} {
					ms := e.prog.MethodSets.MethodSet(tt)
					for i := 0; i < ms.Len(); i++ {
						if fn := e.prog.MethodValue(ms.At(i)); fn != nil && fn.Pkg == g.Pkg {
							visit(fn)
						}
					}
				}
			}
		}
		return ok && initStores == 1
	}()
	if e.sentinels == nil {
		e.sentinels = map[*ssa.Global]bool{}
	}
	e.sentinels[g] = res
	return res
}

// modeForeign reports a user SMT symbol that a clause of fc mentions and that is defined only for
// the other arithmetic mode ("" if the contract can be used in mode m).
func (e *Engine) modeForeign(fc *FuncContract, m Mode) string {
	key := fc.Key() + "@" + m.String()
	if r, ok := e.foreignCache[key]; ok {
		return r
	}
	avail := map[string]bool{}
	other := map[string]bool{}
	for _, d := range e.smtDefs {
		f := strings.Fields(d.Text)
		if len(f) < 2 || !(strings.HasPrefix(d.Text, "(declare-fun") || strings.HasPrefix(d.Text, "(define-fun")) {
			continue
		}
		name := strings.Trim(f[1], "()")
		if d.Mode == "all" || d.Mode == m.String() {
			avail[name] = true
		} else {
			other[name] = true
		}
	}
	res := ""
	var clauses []*Clause
	clauses = append(clauses, fc.Requires...)
	clauses = append(clauses, fc.Ensures...)
	for _, c := range clauses {
		if (strings.HasPrefix(c.Tag, "bv:") || strings.HasPrefix(c.Tag, "int:")) && !strings.HasPrefix(c.Tag, m.String()+":") {
			continue
		}
		// identifiers of the clause, with specification macros expanded transitively
		seen := map[string]bool{}
		work := []string{c.Text}
		for len(work) > 0 {
			txt := work[len(work)-1]
			work = work[:len(work)-1]
			for _, id := range smtIdentRe.FindAllString(txt, -1) {
				if seen[id] {
					continue
				}
				seen[id] = true
				if other[id] && !avail[id] {
					res = id
				}
				if sf := e.specFuncs[id]; sf != nil {
					work = append(work, sf.Body.Text)
				}
			}
		}
	}
	if e.foreignCache == nil {
		e.foreignCache = map[string]string{}
	}
	e.foreignCache[key] = res
	return res
}
