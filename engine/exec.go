package main

// Symbolic execution of go/ssa (NaiveForm) with state merging; loops are cut by
// invariants or completely unrolled with an unwinding assertion.

import (
	"fmt"
	"go/constant"
	"go/token"
	"go/types"
	"math/big"
	"os"
	"sort"
	"strings"

	"golang.org/x/tools/go/ssa"
)

type retEdge struct {
	st  *State
	res Val
}

type frame struct {
	fn      *ssa.Function
	fc      *FuncContract
	returns []retEdge
	prefix  string
	forest  *loopForest
	depth   int
	deferAt int
}

type Exec struct {
	vc         *VC
	eng        *Engine
	fc         *FuncContract
	top        *ssa.Function
	entry      *State
	stack      []*ssa.Function
	safety     bool
	params     map[string]Val // contract param names -> entry values
	overflw    string
	siteSeq    map[string]int
	sitePos    map[string]map[token.Pos]int
	topTargets []modTarget
	loopIns    []*State
	topReturns []retEdge
	protect    []modTarget
	topFr      *frame   // frame of the function under verification
	cpHit      map[string]bool // call rule keys (callpre NAME) that matched at least one call site
	lateProt   []Expr   // opt protect-local: designators over locals, evaluated at each unknown call
	lateText   string
	bounded    []string // loops without annotation that were unrolled to autoUnrollMax with an unwinding assertion
	autoDepth  int
}

// autoUnrollMax: a loop that has no annotation (typically one that a change introduced into a
// function under contract) is unrolled this many times with an unwinding assertion. If the
// assertion discharges the unrolling is complete; otherwise the function's proofs are bounded
// and only a counterexample (sat) found inside the bound is reported.
const autoUnrollMax = 48

func (x *Exec) pos(p token.Pos) token.Position { return x.eng.fset.Position(p) }

// ---------------------------------------------------------------------------
// loops

type loopInfo struct {
	header   *ssa.BasicBlock
	blocks   map[*ssa.BasicBlock]bool
	children []*loopInfo
	parent   *loopInfo
	ordinal  int
}

type loopForest struct {
	loops    []*loopInfo // by ordinal
	byHeader map[*ssa.BasicBlock]*loopInfo
	rpo      []*ssa.BasicBlock
	rpoIdx   map[*ssa.BasicBlock]int
}

func buildLoopForest(fn *ssa.Function) (*loopForest, error) {
	lf := &loopForest{byHeader: map[*ssa.BasicBlock]*loopInfo{}, rpoIdx: map[*ssa.BasicBlock]int{}}
	// back edges
	for _, b := range fn.Blocks {
		for _, s := range b.Succs {
			if s.Dominates(b) {
				li := lf.byHeader[s]
				if li == nil {
					li = &loopInfo{header: s, blocks: map[*ssa.BasicBlock]bool{s: true}}
					lf.byHeader[s] = li
				}
				// natural loop: nodes reaching b without passing through s
				stack := []*ssa.BasicBlock{b}
				for len(stack) > 0 {
					n := stack[len(stack)-1]
					stack = stack[:len(stack)-1]
					if li.blocks[n] {
						continue
					}
					li.blocks[n] = true
					for _, p := range n.Preds {
						stack = append(stack, p)
					}
				}
			}
		}
	}
	for _, li := range lf.byHeader {
		lf.loops = append(lf.loops, li)
	}
	// ordinal by source position of the loop (smallest position of any instruction in the loop), tie: header index
	minPos := func(li *loopInfo) token.Pos {
		var mp token.Pos
		for b := range li.blocks {
			for _, in := range b.Instrs {
				if p := in.Pos(); p.IsValid() && (mp == 0 || p < mp) {
					mp = p
				}
			}
		}
		return mp
	}
	sort.Slice(lf.loops, func(i, j int) bool {
		pi, pj := minPos(lf.loops[i]), minPos(lf.loops[j])
		if pi != pj {
			return pi < pj
		}
		return lf.loops[i].header.Index < lf.loops[j].header.Index
	})
	for i, li := range lf.loops {
		li.ordinal = i
	}
	// nesting: parent = smallest strictly containing loop
	for _, li := range lf.loops {
		var best *loopInfo
		for _, lj := range lf.loops {
			if lj == li || !lj.blocks[li.header] || len(lj.blocks) <= len(li.blocks) {
				continue
			}
			if best == nil || len(lj.blocks) < len(best.blocks) {
				best = lj
			}
		}
		li.parent = best
		if best != nil {
			best.children = append(best.children, li)
		}
	}
	// reverse postorder ignoring back edges
	seen := map[*ssa.BasicBlock]bool{}
	var post []*ssa.BasicBlock
	var dfs func(b *ssa.BasicBlock)
	dfs = func(b *ssa.BasicBlock) {
		seen[b] = true
		for _, s := range b.Succs {
			if s.Dominates(b) || seen[s] {
				continue
			}
			dfs(s)
		}
		post = append(post, b)
	}
	if len(fn.Blocks) > 0 {
		dfs(fn.Blocks[0])
	}
	for i := len(post) - 1; i >= 0; i-- {
		lf.rpoIdx[post[i]] = len(lf.rpo)
		lf.rpo = append(lf.rpo, post[i])
	}
	if fn.Recover != nil {
		// recover block is ignored (panics are obligations)
	}
	return lf, nil
}

// ---------------------------------------------------------------------------
// merging

func (x *Exec) mergeVal(c Term, a, b Val) (Val, bool) {
	switch {
	case a.Loc != nil || b.Loc != nil:
		if a.Loc == nil || b.Loc == nil || a.Loc.Kind != b.Loc.Kind || a.Loc.Key != b.Loc.Key || a.Loc.Cell != b.Loc.Cell || len(a.Loc.Path) != len(b.Loc.Path) {
			return Val{}, false
		}
		n := *a.Loc
		if a.Loc.Kind != LCell {
			n.Ref = Ite(c, a.Loc.Ref, b.Loc.Ref)
			if a.Loc.Kind == LElem {
				n.Idx = Ite(c, a.Loc.Idx, b.Loc.Idx)
			}
		}
		n.Path = nil
		for i := range a.Loc.Path {
			pa, pb := a.Loc.Path[i], b.Loc.Path[i]
			if (pa.Idx == nil) != (pb.Idx == nil) || pa.Field != pb.Field {
				return Val{}, false
			}
			if pa.Idx != nil {
				t := Ite(c, *pa.Idx, *pb.Idx)
				pa.Idx = &t
			}
			n.Path = append(n.Path, pa)
		}
		return Val{Loc: &n, Typ: a.Typ}, true
	case a.Tuple != nil || b.Tuple != nil:
		if len(a.Tuple) != len(b.Tuple) {
			return Val{}, false
		}
		out := Val{Typ: a.Typ}
		for i := range a.Tuple {
			m, ok := x.mergeVal(c, a.Tuple[i], b.Tuple[i])
			if !ok {
				return Val{}, false
			}
			out.Tuple = append(out.Tuple, m)
		}
		return out, true
	case a.Clo != nil || b.Clo != nil:
		if a.Clo == nil || b.Clo == nil || a.Clo.Fn != b.Clo.Fn {
			return Val{}, false
		}
		return a, true
	}
	if a.T.Sort != b.T.Sort {
		return Val{}, false
	}
	if a.T.S == b.T.S {
		return a, true
	}
	return Val{T: x.vc.bind("m", Ite(c, a.T, b.T)), Typ: a.Typ}, true
}

// merge joins states; the result's pc is the disjunction.
func (x *Exec) merge(sts []*State) (*State, error) {
	var live []*State
	for _, s := range sts {
		if s.pc.B != -1 {
			live = append(live, s)
		}
	}
	if len(live) == 0 {
		return nil, nil
	}
	acc := live[0]
	for _, s := range live[1:] {
		n := &State{regs: map[ssa.Value]Val{}, cells: map[int]Val{}, cellOf: map[*ssa.Alloc]int{}, heap: map[string]Term{}, ghost: map[string]Term{}}
		c := acc.pc // if acc.pc then acc's values else s's (pcs are mutually exclusive along one execution)
		n.pc = x.vc.bind("pc", Or(acc.pc, s.pc))
		for k, va := range acc.regs {
			if vb, ok := s.regs[k]; ok {
				if m, ok := x.mergeVal(c, va, vb); ok {
					n.regs[k] = m
				}
			}
		}
		for k, va := range acc.cellOf {
			if vb, ok := s.cellOf[k]; ok && va == vb {
				n.cellOf[k] = va
			}
		}
		cellKeys := make([]int, 0, len(acc.cells))
		for k := range acc.cells {
			cellKeys = append(cellKeys, k)
		}
		sort.Ints(cellKeys)
		for _, k := range cellKeys {
			va := acc.cells[k]
			if vb, ok := s.cells[k]; ok {
				if m, ok := x.mergeVal(c, va, vb); ok {
					n.cells[k] = m
				}
			}
		}
		keys := map[string]bool{}
		for k := range acc.heap {
			keys[k] = true
		}
		for k := range s.heap {
			keys[k] = true
		}
		keySort := map[string]string{}
		if acc.epoch == s.epoch {
			n.epoch = acc.epoch
		} else {
			x.vc.epochSeq++
			n.epoch = x.vc.epochSeq
			// heap maps not mentioned on either side start afresh in the merged epoch; the maps that
			// carry protected / private locations must stay linked to both sides
			for _, list := range [][]modTarget{x.protect, acc.private, s.private, x.lateTargets(acc), x.lateTargets(s)} {
				for _, t := range list {
					keys[t.key] = true
					keySort[t.key] = t.sort
				}
			}
			// the allocation map stays linked as well: what was allocated at entry stays allocated
			// (fresh() in postconditions is about the entry state)
			keys["$alloc"] = true
			keySort["$alloc"] = arraySort(SInt, SBool)
		}
		sortedKeys := make([]string, 0, len(keys))
		for k := range keys {
			sortedKeys = append(sortedKeys, k)
		}
		sort.Strings(sortedKeys)
		for _, k := range sortedKeys {
			ha, oka := acc.heap[k]
			hb, okb := s.heap[k]
			var sortS string
			if oka {
				sortS = ha.Sort
			} else if okb {
				sortS = hb.Sort
			} else {
				sortS = keySort[k]
			}
			if !oka {
				ha = x.vc.heapAtEpoch(acc.epoch, k, sortS)
			}
			if !okb {
				hb = x.vc.heapAtEpoch(s.epoch, k, sortS)
			}
			if ha.S == hb.S {
				n.heap[k] = ha
			} else {
				n.heap[k] = x.vc.bind("Hm", Ite(c, ha, hb))
			}
		}
		n.private = append([]modTarget{}, acc.private...)
	nextPriv:
		for _, p := range s.private {
			for _, q := range n.private {
				if q.key == p.key && q.ref.S == p.ref.S {
					continue nextPriv
				}
			}
			n.private = append(n.private, p)
		}
		gkeys := map[string]bool{}
		for k := range acc.ghost {
			gkeys[k] = true
		}
		for k := range s.ghost {
			gkeys[k] = true
		}
		for k := range gkeys {
			ga, oka := acc.ghost[k]
			gb, okb := s.ghost[k]
			var gsort string
			if oka {
				gsort = ga.Sort
			} else {
				gsort = gb.Sort
			}
			if !oka {
				ga = x.vc.ghostInitial(k, gsort)
			}
			if !okb {
				gb = x.vc.ghostInitial(k, gsort)
			}
			if ga.S == gb.S {
				n.ghost[k] = ga
			} else {
				n.ghost[k] = x.vc.bind("g", Ite(c, ga, gb))
			}
		}
		if len(acc.defers) != len(s.defers) {
			return nil, unsupported("conditional defer (different defer stacks at a join)")
		}
		n.defers = acc.defers
		acc = n
	}
	return acc, nil
}

// ---------------------------------------------------------------------------
// running a function

func (x *Exec) execFunc(fn *ssa.Function, args []Val, bindings []Val, st *State, prefix string, depth int) (*State, Val, error) {
	if fn.Blocks == nil {
		return nil, Val{}, unsupported("function %s has no body", fn)
	}
	for _, f := range x.stack {
		if f == fn {
			return nil, Val{}, unsupported("recursive inlining of %s", fn)
		}
	}
	x.stack = append(x.stack, fn)
	defer func() { x.stack = x.stack[:len(x.stack)-1] }()
	forest, err := buildLoopForest(fn)
	if err != nil {
		return nil, Val{}, err
	}
	fr := &frame{fn: fn, prefix: prefix, forest: forest, depth: depth, deferAt: len(st.defers)}
	if depth == 0 {
		x.topFr = fr
	}
	fr.fc = x.eng.contractFor(fn)
	if depth == 0 {
		fr.fc = x.fc
	}
	st = st.clone()
	if len(args) != len(fn.Params) {
		return nil, Val{}, fmt.Errorf("internal: %s: %d args for %d params", fn, len(args), len(fn.Params))
	}
	for i, p := range fn.Params {
		st.regs[p] = args[i]
	}
	for i, fv := range fn.FreeVars {
		if i >= len(bindings) {
			return nil, Val{}, unsupported("free variables of %s not bound", fn)
		}
		st.regs[fv] = bindings[i]
	}
	all := map[*ssa.BasicBlock]bool{}
	for _, b := range forest.rpo {
		all[b] = true
	}
	exits, err := x.runRegion(fr, all, nil, fn.Blocks[0], st)
	if err != nil {
		return nil, Val{}, err
	}
	if len(exits) != 0 {
		return nil, Val{}, fmt.Errorf("internal: edges leave function region")
	}
	if len(fr.returns) == 0 {
		// no normal return
		dead := st.clone()
		dead.pc = TFalse
		return dead, Val{}, nil
	}
	if depth == 0 {
		x.topReturns = nil
		for _, r := range fr.returns {
			if r.st.pc.B != -1 {
				x.topReturns = append(x.topReturns, retEdge{r.st.clone(), r.res})
			}
		}
	}
	var sts []*State
	for _, r := range fr.returns {
		sts = append(sts, r.st)
	}
	// merge results along with states: put results into a pseudo register
	key := retKey{fn}
	_ = key
	for _, r := range fr.returns {
		r.st.regs[retReg] = r.res
	}
	out, err := x.merge(sts)
	if err != nil {
		return nil, Val{}, err
	}
	if out == nil {
		dead := st.clone()
		dead.pc = TFalse
		return dead, Val{}, nil
	}
	res, ok := out.regs[retReg]
	if !ok && fn.Signature.Results().Len() > 0 {
		return nil, Val{}, unsupported("results of %s cannot be merged", fn)
	}
	delete(out.regs, retReg)
	out.defers = out.defers[:fr.deferAt]
	return out, res, nil
}

type retKey struct{ fn *ssa.Function }

var retReg ssa.Value = &ssa.Const{}

type edge struct {
	from *ssa.BasicBlock
	to   *ssa.BasicBlock
	st   *State
}

// runRegion executes the blocks of a region (function body or loop body) in
// reverse postorder; self is the loop whose body this is (nil for the function).
func (x *Exec) runRegion(fr *frame, region map[*ssa.BasicBlock]bool, self *loopInfo, entry *ssa.BasicBlock, st *State) ([]edge, error) {
	incoming := map[*ssa.BasicBlock][]*State{entry: {st}}
	done := map[*ssa.BasicBlock]bool{}
	var exits []edge
	var routeErr error
	route := func(from *ssa.BasicBlock, to *ssa.BasicBlock, s *State) {
		if s.pc.B == -1 {
			return
		}
		if self != nil && to == self.header {
			exits = append(exits, edge{from, to, s})
			return
		}
		if region[to] {
			if err := x.resolvePhis(from, to, s); err != nil {
				routeErr = err
			}
			incoming[to] = append(incoming[to], s)
			return
		}
		exits = append(exits, edge{from, to, s})
	}
	for _, b := range fr.forest.rpo {
		if !region[b] || done[b] {
			continue
		}
		ins := incoming[b]
		if len(ins) == 0 {
			continue
		}
		nomerge := fr.depth == 0 && x.fc != nil && x.fc.Opts["nomerge"] != "" && self == nil
		if nomerge && (fr.forest.byHeader[b] == nil || fr.forest.byHeader[b] == self) {
			// path-sensitive mode: run the block once per incoming path
			var live []*State
			for _, s := range ins {
				if s.pc.B != -1 {
					live = append(live, s)
				}
			}
			if len(live) > 1 && len(live) <= 64 {
				done[b] = true
				for _, s := range live {
					if err := x.execBlock(fr, b, s, route); err != nil {
						return nil, err
					}
					if routeErr != nil {
						return nil, routeErr
					}
				}
				continue
			}
		}
		cur, err := x.merge(ins)
		if err != nil {
			return nil, err
		}
		if cur == nil {
			continue
		}
		if li := fr.forest.byHeader[b]; li != nil && li != self {
			x.loopIns = nil
			if nomerge {
				x.loopIns = ins
			}
			les, err := x.runLoop(fr, li, cur)
			if err != nil {
				return nil, err
			}
			for blk := range li.blocks {
				done[blk] = true
			}
			for _, e := range les {
				route(e.from, e.to, e.st)
			}
			if routeErr != nil {
				return nil, routeErr
			}
			continue
		}
		done[b] = true
		if err := x.execBlock(fr, b, cur, route); err != nil {
			return nil, err
		}
		if routeErr != nil {
			return nil, routeErr
		}
	}
	return exits, nil
}

// resolvePhis evaluates the phi nodes of block to for the edge from->to in state s.
func (x *Exec) resolvePhis(from, to *ssa.BasicBlock, s *State) error {
	pi := -1
	for i, p := range to.Preds {
		if p == from {
			pi = i
			break
		}
	}
	var phis []*ssa.Phi
	var vals []Val
	for _, in := range to.Instrs {
		phi, ok := in.(*ssa.Phi)
		if !ok {
			break
		}
		if pi < 0 {
			return fmt.Errorf("internal: phi edge not found")
		}
		v, err := x.val(s, phi.Edges[pi])
		if err != nil {
			return err
		}
		phis = append(phis, phi)
		vals = append(vals, v)
	}
	for i, phi := range phis {
		v := vals[i]
		if v.Typ == nil {
			v.Typ = phi.Type()
		}
		s.regs[phi] = v
	}
	return nil
}

func (x *Exec) loopSpec(fr *frame, li *loopInfo) *LoopSpec {
	if fr.fc == nil {
		return nil
	}
	return fr.fc.Loops[li.ordinal]
}

func (x *Exec) runLoop(fr *frame, li *loopInfo, st *State) ([]edge, error) {
	spec := x.loopSpec(fr, li)
	hpos := x.loopPos(li)
	name := fmt.Sprintf("%sloop%d", fr.prefix, li.ordinal)
	auto := false
	if spec == nil && fr.fn.Parent() != nil {
		// a loop inside a function literal (typically a deferred clean-up): cut with the invariant
		// "true" - everything the body writes is havoced, nothing is assumed or claimed about it
		spec = &LoopSpec{}
	}
	if spec == nil {
		if fr.depth != 0 || x.autoDepth > 0 || os.Getenv("VERIF_NO_AUTOUNROLL") != "" {
			return nil, unsupported("loop %d of %s (line %d) has neither invariant nor unroll", li.ordinal, fr.fn.Name(), hpos.Line)
		}
		spec = &LoopSpec{Unroll: autoUnrollMax}
		auto = true
		x.autoDepth++
		defer func() { x.autoDepth-- }()
		x.bounded = append(x.bounded, fmt.Sprintf("loop %d of %s (line %d) has no annotation: unrolled %d times", li.ordinal, fr.fn.Name(), hpos.Line, autoUnrollMax))
	}
	if spec.Unroll > 0 {
		var out []edge
		cur := st
		for iter := 0; ; iter++ {
			exits, err := x.runRegion(fr, li.blocks, li, li.header, cur)
			if err != nil {
				return nil, err
			}
			var back []*State
			for _, e := range exits {
				if e.to == li.header {
					if err := x.resolvePhis(e.from, e.to, e.st); err != nil {
						return nil, err
					}
					back = append(back, e.st)
				} else {
					out = append(out, e)
				}
			}
			next, err := x.merge(back)
			if err != nil {
				return nil, err
			}
			if next == nil {
				break
			}
			if iter >= spec.Unroll {
				kind, oname := "unwind", name+"/unwind"
				if auto {
					kind, oname = "auto-unwind", name+"/auto-unwind"
				}
				x.vc.oblige(kind, oname, next.pc, TFalse, hpos, fmt.Sprintf("loop runs at most %d iterations", spec.Unroll))
				break
			}
			cur = next
		}
		return out, nil
	}
	// invariant mode
	entries := []*State{st}
	if len(x.loopIns) > 1 {
		entries = nil
		for _, s := range x.loopIns {
			if s.pc.B != -1 {
				entries = append(entries, s)
			}
		}
	}
	x.loopIns = nil
	for _, est := range entries {
		env := x.specEnv(fr, est, li)
		env.pol = -1
		for i, inv := range spec.Invariants {
			t, err := x.evalBool(inv.Expr, env)
			if err != nil {
				return nil, fmt.Errorf("%s:%d: loop %d invariant: %w", inv.File, inv.Line, li.ordinal, err)
			}
			x.vc.oblige("inv-entry", fmt.Sprintf("%s/inv#%d/entry", name, i), est.pc, t, hpos, inv.Text)
		}
	}
	env := x.specEnv(fr, st, li)
	// fixpoint of havoc set by dry runs
	hav := newHavocSet()
	for round := 0; ; round++ {
		if round > 6 {
			return nil, fmt.Errorf("internal: havoc set of loop %d does not stabilise", li.ordinal)
		}
		probe := st.clone()
		x.applyHavoc(fr, probe, hav, nil)
		x.vc.dry++
		mark := len(x.vc.trace)
		outerLog := x.vc.wlog
		x.vc.wlog = hav.wl
		exits, err := x.runRegion(fr, li.blocks, li, li.header, probe.clone())
		x.vc.wlog = outerLog
		x.vc.dry--
		x.vc.trace = x.vc.trace[:mark]
		if err != nil {
			return nil, err
		}
		grew := false
		for _, e := range exits {
			if hav.absorb(probe, e.st) {
				grew = true
			}
		}
		if !grew {
			break
		}
	}
	head := st.clone()
	x.applyHavoc(fr, head, hav, st)
	env = x.specEnv(fr, head, li)
	env.pol = 1
	var invTerms []Term
	for _, inv := range spec.Invariants {
		t, err := x.evalBool(inv.Expr, env)
		if err != nil {
			return nil, fmt.Errorf("%s:%d: loop %d invariant: %w", inv.File, inv.Line, li.ordinal, err)
		}
		x.vc.assume(head.pc, t)
		invTerms = append(invTerms, t)
	}
	var dec0 Term
	if spec.Decreases != nil {
		d, err := x.evalSpec(spec.Decreases.Expr, env)
		if err != nil {
			return nil, err
		}
		dec0 = d.T
	}
	exits, err := x.runRegion(fr, li.blocks, li, li.header, head.clone())
	if err != nil {
		return nil, err
	}
	var out []edge
	for _, e := range exits {
		if e.to != li.header {
			out = append(out, e)
			continue
		}
		benv := x.specEnv(fr, e.st, li)
		benv.pol = -1
		for i, inv := range spec.Invariants {
			t, err := x.evalBool(inv.Expr, benv)
			if err != nil {
				return nil, fmt.Errorf("%s:%d: loop %d invariant: %w", inv.File, inv.Line, li.ordinal, err)
			}
			x.vc.oblige("inv-preserved", fmt.Sprintf("%s/inv#%d/preserved", name, i), e.st.pc, t, hpos, inv.Text)
		}
		if len(spec.Steps) > 0 {
			// "loop K: step E": what every completed iteration has established when it goes round
			// again - stated over the variables of the body, asserted only (never assumed)
			senv := x.specEnv(fr, e.st, nil)
			senv.pol = -1
			for i, sc := range spec.Steps {
				t, err := x.evalBool(sc.Expr, senv)
				if err != nil {
					return nil, fmt.Errorf("%s:%d: loop %d step: %w", sc.File, sc.Line, li.ordinal, err)
				}
				x.vc.oblige("inv-preserved", fmt.Sprintf("%s/step#%d", name, i), e.st.pc, t, hpos, sc.Text)
			}
		}
		if t := x.frameKept(fr, head, e.st, hav); t.B != 1 {
			x.vc.oblige("inv-preserved", name+"/frame/preserved", e.st.pc, t, hpos, "loop body respects the function's modifies clause")
		}
		if spec.Decreases != nil {
			d, err := x.evalSpec(spec.Decreases.Expr, benv)
			if err != nil {
				return nil, err
			}
			g := And(x.vc.ar.Cmp("<", d.T, dec0, kInt), x.vc.ar.Cmp(">=", dec0, x.vc.idx(0), kInt))
			x.vc.oblige("decreases", name+"/decreases", e.st.pc, g, hpos, spec.Decreases.Text)
		}
	}
	return out, nil
}

func (x *Exec) loopPos(li *loopInfo) token.Position {
	var mp token.Pos
	for b := range li.blocks {
		for _, in := range b.Instrs {
			if p := in.Pos(); p.IsValid() && (mp == 0 || p < mp) {
				mp = p
			}
		}
	}
	return x.pos(mp)
}

// havocSet: cells and heap keys changed by a loop body
type havocSet struct {
	cells map[int]bool
	heap  map[string]bool
	ghost map[string]bool
	wl    *writeLog // which heap maps were written wholesale / only at some struct fields
	unknown bool    // the body contains a call with unknown effects: the whole heap is havoced
}

func newHavocSet() *havocSet {
	return &havocSet{cells: map[int]bool{}, heap: map[string]bool{}, ghost: map[string]bool{}, wl: &writeLog{whole: map[string]bool{}, fields: map[string]map[int]bool{}}}
}

func (h *havocSet) absorb(before, after *State) bool {
	grew := false
	if after.epoch != before.epoch && !h.unknown {
		// a call with unknown effects happens in the loop body
		h.unknown = true
		grew = true
	}
	for id, v := range after.cells {
		b, ok := before.cells[id]
		if !ok {
			continue // cell created inside the loop
		}
		if !h.cells[id] && !sameVal(b, v) {
			h.cells[id] = true
			grew = true
		}
	}
	for k, v := range after.heap {
		b, ok := before.heap[k]
		if !h.heap[k] && (!ok || b.S != v.S) {
			if !ok && strings.HasPrefix(v.S, "H0_") {
				continue
			}
			h.heap[k] = true
			grew = true
		}
	}
	for k, v := range after.ghost {
		b, ok := before.ghost[k]
		if !h.ghost[k] && (!ok || b.S != v.S) {
			h.ghost[k] = true
			grew = true
		}
	}
	return grew
}

func sameVal(a, b Val) bool {
	if a.Loc != nil || b.Loc != nil {
		if a.Loc == nil || b.Loc == nil {
			return false
		}
		if a.Loc.Kind != b.Loc.Kind || a.Loc.Cell != b.Loc.Cell || a.Loc.Key != b.Loc.Key || a.Loc.Ref.S != b.Loc.Ref.S || a.Loc.Idx.S != b.Loc.Idx.S || len(a.Loc.Path) != len(b.Loc.Path) {
			return false
		}
		for i := range a.Loc.Path {
			pa, pb := a.Loc.Path[i], b.Loc.Path[i]
			if pa.Field != pb.Field || (pa.Idx == nil) != (pb.Idx == nil) || (pa.Idx != nil && pa.Idx.S != pb.Idx.S) {
				return false
			}
		}
		return true
	}
	if len(a.Tuple) != len(b.Tuple) {
		return false
	}
	for i := range a.Tuple {
		if !sameVal(a.Tuple[i], b.Tuple[i]) {
			return false
		}
	}
	if a.Clo != nil || b.Clo != nil {
		return a.Clo != nil && b.Clo != nil && a.Clo.Fn == b.Clo.Fn
	}
	return a.T.S == b.T.S
}

// applyHavoc replaces havoced cells/heap maps by fresh values (with
// well-formedness assumptions). If pre is non-nil the function's frame is
// assumed for the havoced heap maps relative to the entry state.
func (x *Exec) applyHavoc(fr *frame, st *State, hav *havocSet, pre *State) {
	if hav.unknown {
		x.havocCall(st, types.NewSignatureType(nil, nil, nil, nil, nil, false), "loop")
	}
	ids := make([]int, 0, len(hav.cells))
	for id := range hav.cells {
		ids = append(ids, id)
	}
	sort.Ints(ids)
	for _, id := range ids {
		old := st.cells[id]
		if old.Loc != nil || old.Clo != nil || old.Tuple != nil {
			// pointer-valued local changed in loop: cannot havoc structurally
			// a pointer-valued local that the loop changes: afterwards it may point anywhere
			// (of its static type); stores through it havoc by type, other uses are unsupported
			st.cells[id] = Val{T: Term{S: "WILD", Sort: "?"}, Typ: old.Typ}
			continue
		}
		nv := x.vc.freshConst("hv", old.T.Sort)
		if old.Typ != nil {
			x.vc.assume(st.pc, x.vc.wf(st, nv, old.Typ, 0))
		}
		st.cells[id] = Val{T: nv, Typ: old.Typ}
	}
	keys := make([]string, 0, len(hav.heap))
	for k := range hav.heap {
		keys = append(keys, k)
	}
	sort.Strings(keys)
	for _, k := range keys {
		var sortS string
		if t, ok := st.heap[k]; ok {
			sortS = t.Sort
		} else if t, ok := x.vc.declSortOfHeap(k); ok {
			sortS = t
		} else {
			continue
		}
		oldH := x.vc.heapGet(st, k, sortS)
		nh := x.vc.freshConst("Hh", sortS)
		st.heap[k] = nh
		precise := !hav.wl.whole[k] && len(hav.wl.fields[k]) > 0
		if x.vc.wlog != nil && x.vc.wlog != hav.wl {
			// this loop is itself inside a probed (outer) loop body: forward what it writes
			if !precise {
				x.vc.wlog.whole[k] = true
			} else {
				if x.vc.wlog.fields[k] == nil {
					x.vc.wlog.fields[k] = map[int]bool{}
				}
				for f := range hav.wl.fields[k] {
					x.vc.wlog.fields[k][f] = true
				}
			}
		}
		if precise {
			x.keepFields(st, k, sortS, oldH, nh, hav.wl.fields[k])
		}
		if !hav.wl.whole[k] && len(hav.wl.fields[k]) == 0 && k != "$alloc" {
			// the loop body itself never writes this map (it is in the havoc set only because a
			// merge of states with different epochs named it): locations that calls with unknown
			// effects are assumed not to touch keep their value across the loop
			for _, list := range [][]modTarget{x.protect, st.private, x.lateTargets(st)} {
				for _, t := range list {
					if t.key != k {
						continue
					}
					if t.all {
						x.vc.assume(st.pc, Eq(nh, oldH))
					} else {
						x.vc.assume(st.pc, Eq(Select(nh, t.ref), Select(oldH, t.ref)))
					}
				}
			}
		}
		if k == "$alloc" {
			// allocation only grows
			x.vc.assert(raw(fmt.Sprintf("(forall ((r Int)) (! (=> (select %s r) (select %s r)) :pattern ((select %s r))))", oldH.S, nh.S, nh.S), SBool))
			continue
		}
		if pre != nil {
			if t := x.frameAssumption(fr, k, sortS, nh); t.B != 1 {
				x.vc.assume(st.pc, t)
			}
		}
	}
	gks := make([]string, 0, len(hav.ghost))
	for k := range hav.ghost {
		gks = append(gks, k)
	}
	sort.Strings(gks)
	for _, k := range gks {
		if t, ok := st.ghost[k]; ok {
			st.ghost[k] = x.vc.freshConst("gh", t.Sort)
		} else if gs, ok := x.eng.ghostSorts[k]; ok {
			// never assigned before the loop (still the initial value): havoc it all the same
			st.ghost[k] = x.vc.freshConst("gh", x.eng.smtSort(gs, x.vc.ar.Mode))
		}
	}
}

// keepFields: the loop writes only the given top-level fields of the struct values held in
// heap map k; every other field is unchanged by the loop.
func (x *Exec) keepFields(st *State, k, sortS string, oldH, nh Term, written map[int]bool) {
	vc := x.vc
	_, vs := arraySorts(sortS)
	elem := false
	if strings.HasPrefix(vs, "(Array ") {
		_, vs = arraySorts(vs)
		elem = true
	}
	su, ok := vc.structs[vs]
	if !ok {
		return
	}
	idx := vc.ar.IdxSort()
	for i := 0; i < su.NumFields(); i++ {
		if written[i] {
			continue
		}
		acc := vs + "." + fieldName(su, i)
		if elem {
			vc.assert(raw(fmt.Sprintf("(forall ((r!k Int) (i!k %s)) (! (= (%s (select (select %s r!k) i!k)) (%s (select (select %s r!k) i!k))) :pattern ((select (select %s r!k) i!k))))",
				idx, acc, nh.S, acc, oldH.S, nh.S), SBool))
		} else {
			vc.assert(raw(fmt.Sprintf("(forall ((r!k Int)) (! (= (%s (select %s r!k)) (%s (select %s r!k))) :pattern ((select %s r!k))))",
				acc, nh.S, acc, oldH.S, nh.S), SBool))
		}
	}
}

func (vc *VC) declSortOfHeap(key string) (string, bool) {
	// find the declared sort of an initial heap map
	name := "H0_" + sanitize(key)
	for _, d := range vc.decls {
		p := "(declare-const " + name + " "
		if strings.HasPrefix(d, p) {
			return d[len(p) : len(d)-1], true
		}
	}
	return "", false
}

// ---------------------------------------------------------------------------
// blocks and instructions

func (x *Exec) execBlock(fr *frame, b *ssa.BasicBlock, st *State, route func(from, to *ssa.BasicBlock, s *State)) error {
	for _, in := range b.Instrs {
		if st.pc.B == -1 {
			return nil
		}
		switch i := in.(type) {
		case *ssa.If:
			c, err := x.val(st, i.Cond)
			if err != nil {
				return err
			}
			t := st.clone()
			t.pc = x.vc.bind("pc", And(st.pc, c.T))
			f := st
			f.pc = x.vc.bind("pc", And(st.pc, Not(c.T)))
			route(b, b.Succs[0], t)
			route(b, b.Succs[1], f)
			return nil
		case *ssa.Jump:
			route(b, b.Succs[0], st)
			return nil
		case *ssa.Return:
			var res Val
			switch len(i.Results) {
			case 0:
			case 1:
				v, err := x.val(st, i.Results[0])
				if err != nil {
					return err
				}
				res = v
			default:
				res.Typ = fr.fn.Signature.Results()
				for _, r := range i.Results {
					v, err := x.val(st, r)
					if err != nil {
						return err
					}
					res.Tuple = append(res.Tuple, v)
				}
			}
			fr.returns = append(fr.returns, retEdge{st, res})
			return nil
		case *ssa.Panic:
			if x.fc != nil && x.fc.MayPanic && fr.depth == 0 {
				return nil
			}
			x.safetyObl(fr, st, "panic", i.Pos(), TFalse, "explicit panic is unreachable")
			return nil
		default:
			if err := x.execInstr(fr, st, in); err != nil {
				if _, ok := err.(*Unsupported); ok {
					p := x.pos(in.Pos())
					return &Unsupported{fmt.Sprintf("%s (%s:%d: %s)", err.(*Unsupported).Msg, shortFile(p.Filename), p.Line, in.String())}
				}
				return err
			}
		}
	}
	return nil
}

func shortFile(f string) string { return strings.TrimPrefix(f, "/repo/") }

func (x *Exec) val(st *State, v ssa.Value) (Val, error) {
	switch c := v.(type) {
	case *ssa.Const:
		return x.constVal(c)
	case *ssa.Function:
		return Val{Clo: &Closure{Fn: c}, Typ: c.Type()}, nil
	case *ssa.Global:
		t := c.Type().(*types.Pointer).Elem()
		ref := x.vc.globalRef(c)
		switch t.Underlying().(type) {
		case *types.Struct, *types.Array:
			return Val{T: ref, Typ: c.Type()}, nil
		}
		key, _ := x.vc.cellKey(t)
		loc := &Loc{Kind: LHeapCell, Key: key, Ref: ref, RootT: t}
		if x.eng.sentinelError(c) {
			// a sentinel error variable: initialised once in its package's init to a non-nil error and
			// never assigned again in that package; every load yields that value
			name := "gval_" + sanitize(c.Pkg.Pkg.Path()+"."+c.Name())
			x.vc.decl("sentinel:"+name, fmt.Sprintf("(declare-const %s Iface)\n(assert (and (> (i-typ %s) 0) (>= (i-val %s) 0)))", name, name, name))
			fz := raw(name, "Iface")
			loc.Frozen = &fz
			x.vc.trusted["sentinel error variable "+c.Pkg.Pkg.Path()+"."+c.Name()+" is initialised to a non-nil error in its package's init and never reassigned (checked within its own package)"] = true
		}
		return Val{Loc: loc, Typ: c.Type()}, nil
	case *ssa.Builtin:
		return Val{}, unsupported("builtin %s used as value", c.Name())
	}
	r, ok := st.regs[v]
	if !ok {
		return Val{}, fmt.Errorf("internal: value %s (%T) not available", v.Name(), v)
	}
	if r.T.S == "WILD" {
		if r.Typ == nil {
			r.Typ = v.Type()
		}
		return r, nil
	}
	return r, nil
}

func (vc *VC) globalRef(g *ssa.Global) Term {
	name := "g_" + sanitize(g.Pkg.Pkg.Path()+"."+g.Name())
	vc.decl("fun:ref.kind", "(declare-fun ref.kind (Int) Int)\n(declare-fun ref.iptr (Int) Bool)")
	id := vc.kindID(name)
	vc.decl("global:"+name, fmt.Sprintf("(declare-const %s Int)\n(assert (and (> %s 0) (= (ref.kind %s) %d) (not (ref.iptr %s))))", name, name, name, id, name))
	return raw(name, SInt)
}

func (x *Exec) constVal(c *ssa.Const) (Val, error) {
	t := c.Type()
	if c.Value == nil {
		return Val{T: x.vc.zeroOf(t), Typ: t}, nil
	}
	switch c.Value.Kind() {
	case constant.Bool:
		return Val{T: boolT(constant.BoolVal(c.Value)), Typ: t}, nil
	case constant.Int:
		k, ok := intKindOf(t)
		if !ok {
			if _, isF := t.Underlying().(*types.Basic); isF {
				return Val{T: x.vc.freshConst("float", "Float"), Typ: t}, nil
			}
			return Val{}, unsupported("integer constant of type %s", t)
		}
		bi, _ := new(big.Int).SetString(c.Value.ExactString(), 10)
		return Val{T: x.vc.ar.Lit(bi, k), Typ: t}, nil
	case constant.String:
		return Val{T: x.vc.strLit(constant.StringVal(c.Value)), Typ: t}, nil
	case constant.Float, constant.Complex:
		if k, ok := intKindOf(t); ok {
			if bi, ok2 := new(big.Int).SetString(c.Value.ExactString(), 10); ok2 {
				return Val{T: x.vc.ar.Lit(bi, k), Typ: t}, nil
			}
		}
		return Val{T: x.vc.freshConst("float", "Float"), Typ: t}, nil
	}
	return Val{}, unsupported("constant %s", c)
}

func (x *Exec) siteName(fr *frame, kind string, pos token.Pos) string {
	// stable name: kind @ source text of the line-free expression position is not
	// available cheaply; use kind + ordinal within function (per kind).
	key := fr.prefix + kind
	x.siteSeq[key]++
	return fmt.Sprintf("%ssafety/%s#%d", fr.prefix, kind, x.siteSeq[key]-1)
}

func (x *Exec) safetyObl(fr *frame, st *State, kind string, pos token.Pos, goal Term, text string) {
	if x.vc.dry > 0 {
		return
	}
	name := x.siteName(fr, kind, pos)
	if goal.B == 1 {
		return
	}
	if !x.safety {
		// panic freedom is not claimed for this function, but execution only continues past this
		// point when the operation did not panic
		x.vc.assume(st.pc, goal)
		return
	}
	p := x.pos(pos)
	x.vc.oblige("safety", name, st.pc, goal, p, fmt.Sprintf("%s (%s:%d)", text, shortFile(p.Filename), p.Line))
	// after the check, continue under the assumption that it held
	x.vc.assume(st.pc, goal)
}

func (x *Exec) nonNil(fr *frame, st *State, ref Term, pos token.Pos, what string) {
	x.safetyObl(fr, st, "nil", pos, Not(Eq(ref, intLit64(0))), "nil dereference: "+what)
}

func (x *Exec) setReg(st *State, v ssa.Value, val Val) {
	if val.Typ == nil {
		val.Typ = v.Type()
	}
	st.regs[v] = val
}

func (x *Exec) execInstr(fr *frame, st *State, in ssa.Instruction) error {
	vc := x.vc
	switch i := in.(type) {
	case *ssa.DebugRef:
		return nil
	case *ssa.Alloc:
		et := i.Type().(*types.Pointer).Elem()
		if i.Heap {
			ref := vc.allocRef(st, "new_"+i.Comment)
			if err := vc.storeObject(st, ref, et, vc.zeroOf(et)); err != nil {
				return err
			}
			if isBigIntPtr(i.Type()) {
				// new(big.Int): the zero value of a big.Int is the number 0
				bs := arraySort(SInt, SInt)
				vc.setHeap(st, "big.Int", Store(vc.heapGet(st, "big.Int", bs), ref, intLit64(0)), -1)
			}
			// a local that never leaves this function (only read/written directly, or captured
			// by closures that are only run by go/defer/direct call) cannot be touched by calls
			// with unknown effects
			if privateAlloc(i) {
				switch u := et.Underlying().(type) {
				case *types.Struct:
					for fi := 0; fi < u.NumFields(); fi++ {
						if _, isArr := u.Field(fi).Type().Underlying().(*types.Array); isArr {
							continue
						}
						k, s := vc.fieldKey(et, fi)
						st.private = append(st.private, modTarget{key: k, sort: s, ref: ref})
					}
				case *types.Array:
					k, s := vc.elemKey(u.Elem())
					st.private = append(st.private, modTarget{key: k, sort: s, ref: ref})
				default:
					k, s := vc.cellKey(et)
					st.private = append(st.private, modTarget{key: k, sort: s, ref: ref})
				}
			}
			switch et.Underlying().(type) {
			case *types.Struct, *types.Array:
				x.setReg(st, i, Val{T: ref})
			default:
				key, _ := vc.cellKey(et)
				x.setReg(st, i, Val{Loc: &Loc{Kind: LHeapCell, Key: key, Ref: ref, RootT: et}})
			}
			return nil
		}
		// one cell per Alloc instruction (activations of the same instruction never overlap:
		// recursion is not inlined), so that path-sensitive runs can be merged again
		id, ok := vc.cellIDs[i]
		if !ok {
			vc.cellSeq++
			id = vc.cellSeq
			vc.cellIDs[i] = id
		}
		st.cellOf[i] = id
		st.cells[id] = Val{T: vc.zeroOf(et), Typ: et}
		x.setReg(st, i, Val{Loc: &Loc{Kind: LCell, Cell: id, RootT: et}})
		return nil
	case *ssa.Store:
		a, err := x.val(st, i.Addr)
		if err != nil {
			return err
		}
		v, err := x.val(st, i.Val)
		if err != nil {
			return err
		}
		return x.store(fr, st, a, v, i.Pos())
	case *ssa.UnOp:
		xv, err := x.val(st, i.X)
		if err != nil {
			return err
		}
		switch i.Op {
		case token.MUL:
			v, err := x.load(fr, st, xv, i.Pos())
			if err != nil {
				return err
			}
			x.setReg(st, i, v)
		case token.NOT:
			x.setReg(st, i, Val{T: Not(xv.T)})
		case token.SUB:
			k, ok := intKindOf(i.Type())
			if !ok {
				return unsupported("negation of %s", i.Type())
			}
			x.setReg(st, i, Val{T: vc.bind(i.Name(), vc.ar.Neg(xv.T, k))})
		case token.XOR:
			k, ok := intKindOf(i.Type())
			if !ok {
				return unsupported("complement of %s", i.Type())
			}
			x.setReg(st, i, Val{T: vc.bind(i.Name(), vc.ar.Compl(xv.T, k))})
		default:
			return unsupported("unary %s", i.Op)
		}
		return nil
	case *ssa.BinOp:
		a, err := x.val(st, i.X)
		if err != nil {
			return err
		}
		b, err := x.val(st, i.Y)
		if err != nil {
			return err
		}
		r, err := x.binop(fr, st, i.Op, a, b, i.X.Type(), i.Y.Type(), i.Type(), i.Pos(), true)
		if err != nil {
			return err
		}
		r.T = vc.bind(i.Name(), r.T)
		x.setReg(st, i, r)
		return nil
	case *ssa.FieldAddr:
		xv, err := x.val(st, i.X)
		if err != nil {
			return err
		}
		stT := i.X.Type().Underlying().(*types.Pointer).Elem()
		su := stT.Underlying().(*types.Struct)
		if xv.Loc != nil {
			x.setReg(st, i, Val{Loc: xv.Loc.with(PathEl{Field: i.Field, Name: su.Field(i.Field).Name(), From: stT})})
			return nil
		}
		x.nonNil(fr, st, xv.T, i.Pos(), "field "+su.Field(i.Field).Name())
		ft := su.Field(i.Field).Type()
		if _, isArr := ft.Underlying().(*types.Array); isArr {
			x.setReg(st, i, Val{T: vc.afld(stT, i.Field, xv.T)})
			return nil
		}
		key, _ := vc.fieldKey(stT, i.Field)
		x.setReg(st, i, Val{Loc: &Loc{Kind: LField, Key: key, Ref: xv.T, RootT: ft}})
		return nil
	case *ssa.Field:
		xv, err := x.val(st, i.X)
		if err != nil {
			return err
		}
		su := i.X.Type().Underlying().(*types.Struct)
		name := vc.structSort(i.X.Type())
		x.setReg(st, i, Val{T: app(vc.sortOf(su.Field(i.Field).Type()), name+"."+fieldName(su, i.Field), xv.T)})
		return nil
	case *ssa.IndexAddr:
		xv, err := x.val(st, i.X)
		if err != nil {
			return err
		}
		iv, err := x.val(st, i.Index)
		if err != nil {
			return err
		}
		idx := x.toIdx(iv, i.Index.Type())
		switch t := i.X.Type().Underlying().(type) {
		case *types.Slice:
			ln := app(vc.ar.IdxSort(), "s-len", xv.T)
			x.safetyObl(fr, st, "index", i.Pos(), x.inBounds(idx, ln, i.Index.Type()), "index out of range")
			key, _ := vc.elemKey(t.Elem())
			off := app(vc.ar.IdxSort(), "s-off", xv.T)
			abs := vc.elemIndex(off, idx)
			x.setReg(st, i, Val{Loc: &Loc{Kind: LElem, Key: key, Ref: app(SInt, "s-ref", xv.T), Idx: abs, RootT: t.Elem()}})
		case *types.Pointer:
			at := t.Elem().Underlying().(*types.Array)
			x.safetyObl(fr, st, "index", i.Pos(), x.inBounds(idx, vc.idx(at.Len()), i.Index.Type()), "index out of range")
			if xv.Loc != nil {
				ix := idx
				x.setReg(st, i, Val{Loc: xv.Loc.with(PathEl{Idx: &ix, From: t.Elem()})})
			} else {
				x.nonNil(fr, st, xv.T, i.Pos(), "array index")
				key, _ := vc.elemKey(at.Elem())
				x.setReg(st, i, Val{Loc: &Loc{Kind: LElem, Key: key, Ref: xv.T, Idx: idx, RootT: at.Elem()}})
			}
		default:
			return unsupported("IndexAddr on %s", i.X.Type())
		}
		return nil
	case *ssa.Index:
		xv, err := x.val(st, i.X)
		if err != nil {
			return err
		}
		iv, err := x.val(st, i.Index)
		if err != nil {
			return err
		}
		idx := x.toIdx(iv, i.Index.Type())
		switch t := i.X.Type().Underlying().(type) {
		case *types.Array:
			x.safetyObl(fr, st, "index", i.Pos(), x.inBounds(idx, vc.idx(t.Len()), i.Index.Type()), "index out of range")
			v := Select(xv.T, idx)
			x.setReg(st, i, Val{T: v})
			vc.assume(st.pc, vc.wf(st, v, t.Elem(), 0))
		case *types.Basic: // string
			ln := app(vc.ar.IdxSort(), "gs.len", xv.T)
			x.safetyObl(fr, st, "index", i.Pos(), x.inBounds(idx, ln, i.Index.Type()), "index out of range")
			v := app(vc.ar.Sort(IntKind{8, false}), "gs.at", xv.T, idx)
			if lit, ok := vc.litOf(xv.T); ok && len(lit) > 0 && len(lit) <= 256 {
				// a constant table indexed by a symbolic value: an array term (default = most common
				// byte, one store per exception) instead of len(lit) ground facts about gs.at
				v = Select(vc.litTable(lit), idx)
			}
			vc.assume(st.pc, vc.ar.InRange(v, IntKind{8, false}))
			x.setReg(st, i, Val{T: v})
		default:
			return unsupported("Index on %s", i.X.Type())
		}
		return nil
	case *ssa.Slice:
		return x.execSlice(fr, st, i)
	case *ssa.MakeSlice:
		lv, err := x.val(st, i.Len)
		if err != nil {
			return err
		}
		cv, err := x.val(st, i.Cap)
		if err != nil {
			return err
		}
		ln, cp := x.toIdx(lv, i.Len.Type()), x.toIdx(cv, i.Cap.Type())
		z := vc.idx(0)
		x.safetyObl(fr, st, "makeslice", i.Pos(), And(vc.ar.Cmp(">=", ln, z, kInt), vc.ar.Cmp(">=", cp, ln, kInt)), "makeslice: len out of range")
		et := i.Type().Underlying().(*types.Slice).Elem()
		ref := vc.allocRef(st, "mk")
		key, hs := vc.elemKey(et)
		as := arraySort(vc.ar.IdxSort(), vc.sortOf(et))
		zero := vc.constArray(as, vc.zeroOf(et))
		x.vc.setHeap(st, key, vc.bind("E", Store(vc.heapGet(st, key, hs), ref, zero)), -1)
		x.setReg(st, i, Val{T: vc.bind(i.Name(), app("Slice", "mk-slice", ref, z, ln, cp))})
		return nil
	case *ssa.Convert:
		return x.execConvert(fr, st, i)
	case *ssa.ChangeType:
		xv, err := x.val(st, i.X)
		if err != nil {
			return err
		}
		xv.Typ = i.Type()
		x.setReg(st, i, xv)
		return nil
	case *ssa.ChangeInterface:
		xv, err := x.val(st, i.X)
		if err != nil {
			return err
		}
		xv.Typ = i.Type()
		x.setReg(st, i, xv)
		return nil
	case *ssa.MakeInterface:
		xv, err := x.val(st, i.X)
		if err != nil {
			return err
		}
		if xv.Loc != nil && xv.Loc.Kind == LHeapCell && len(xv.Loc.Path) == 0 && xv.Loc.Frozen == nil {
			// pointer to a whole heap cell (an escaping local of basic type): its reference is the pointer
			xv = Val{T: xv.Loc.Ref, Typ: i.X.Type()}
		}
		if pt, ok := vc.absPtr(xv.Loc); ok {
			xv = Val{T: pt, Typ: i.X.Type()}
		}
		if xv.Loc != nil {
			return unsupported("interior pointer converted to interface")
		}
		if xv.Clo != nil {
			xv = Val{T: vc.freshConst("closure", SInt), Typ: xv.Typ}
		}
		x.setReg(st, i, Val{T: vc.bind(i.Name(), vc.makeIface(xv.T, i.X.Type()))})
		return nil
	case *ssa.TypeAssert:
		return x.execTypeAssert(fr, st, i)
	case *ssa.Extract:
		tv, err := x.val(st, i.Tuple)
		if err != nil {
			return err
		}
		if i.Index >= len(tv.Tuple) {
			return fmt.Errorf("internal: extract %d of %d-tuple", i.Index, len(tv.Tuple))
		}
		x.setReg(st, i, tv.Tuple[i.Index])
		return nil
	case *ssa.Phi:
		return nil // resolved when the edge into this block was taken
	case *ssa.Call:
		r, err := x.call(fr, st, i.Common(), i.Pos(), i)
		if err != nil {
			return err
		}
		if !r.isZero() {
			x.setReg(st, i, r)
		}
		return nil
	case *ssa.Defer:
		return x.execDefer(fr, st, i)
	case *ssa.RunDefers:
		return x.runDefers(fr, st)
	case *ssa.MakeClosure:
		fn := i.Fn.(*ssa.Function)
		clo := &Closure{Fn: fn}
		for _, b := range i.Bindings {
			bv, err := x.val(st, b)
			if err != nil {
				return err
			}
			clo.Bindings = append(clo.Bindings, bv)
		}
		x.setReg(st, i, Val{Clo: clo})
		return nil
	case *ssa.MakeMap:
		ref := vc.allocRef(st, "map")
		mt := i.Type().Underlying().(*types.Map)
		hk, hs, _, _ := vc.mapKeys(mt)
		ks := vc.sortOf(mt.Key())
		empty := raw(fmt.Sprintf("((as const %s) false)", arraySort(ks, SBool)), arraySort(ks, SBool))
		x.vc.setHeap(st, hk, vc.bind("M", Store(vc.heapGet(st, hk, hs), ref, empty)), -1)
		x.setReg(st, i, Val{T: ref})
		return nil
	case *ssa.MapUpdate:
		mv, err := x.val(st, i.Map)
		if err != nil {
			return err
		}
		kv, err := x.val(st, i.Key)
		if err != nil {
			return err
		}
		vv, err := x.val(st, i.Value)
		if err != nil {
			return err
		}
		if vv.Loc != nil {
			return unsupported("interior pointer stored in map")
		}
		if vv.Clo != nil {
			vv = Val{T: vc.freshConst("closure", SInt), Typ: vv.Typ}
		}
		x.safetyObl(fr, st, "nilmap", i.Pos(), Not(Eq(mv.T, intLit64(0))), "assignment to entry in nil map")
		mt := i.Map.Type().Underlying().(*types.Map)
		hk, hs, vk, vs := vc.mapKeys(mt)
		has := vc.heapGet(st, hk, hs)
		vals := vc.heapGet(st, vk, vs)
		x.vc.setHeap(st, hk, vc.bind("M", Store(has, mv.T, Store(Select(has, mv.T), kv.T, TTrue))), -1)
		x.vc.setHeap(st, vk, vc.bind("M", Store(vals, mv.T, Store(Select(vals, mv.T), kv.T, vv.T))), -1)
		return nil
	case *ssa.Lookup:
		mv, err := x.val(st, i.X)
		if err != nil {
			return err
		}
		kv, err := x.val(st, i.Index)
		if err != nil {
			return err
		}
		mt, ok := i.X.Type().Underlying().(*types.Map)
		if !ok {
			return unsupported("lookup on %s", i.X.Type())
		}
		hk, hs, vk, vs := vc.mapKeys(mt)
		isNil := Eq(mv.T, intLit64(0))
		has := And(Not(isNil), Select(Select(vc.heapGet(st, hk, hs), mv.T), kv.T))
		v := Ite(has, Select(Select(vc.heapGet(st, vk, vs), mv.T), kv.T), vc.zeroOf(mt.Elem()))
		v = vc.bind(i.Name(), v)
		vc.assume(st.pc, vc.wf(st, v, mt.Elem(), 0))
		if i.CommaOk {
			x.setReg(st, i, Val{Tuple: []Val{{T: v, Typ: mt.Elem()}, {T: vc.bind(i.Name()+"ok", has), Typ: types.Typ[types.Bool]}}})
		} else {
			x.setReg(st, i, Val{T: v})
		}
		return nil
	case *ssa.Go:
		// A goroutine launch is modelled only through the ghost updates the contract declares for it
		// (opt go:<ghost> <expr>); the body of the goroutine is not verified and is reported as such.
		applied := false
		if x.fc != nil {
			var names []string
			for k := range x.fc.Opts {
				if strings.HasPrefix(k, "go:") {
					names = append(names, k)
				}
			}
			sort.Strings(names)
			pre := st.clone()
			for _, k := range names {
				e, err := ParseExpr(x.fc.Opts[k])
				if err != nil {
					return fmt.Errorf("%s: go update: %v", x.fc.Key(), err)
				}
				env := x.specEnv(fr, pre, nil)
				v, err := x.evalSpec(e, env)
				if err != nil {
					return fmt.Errorf("%s: go update: %w", x.fc.Key(), err)
				}
				st.ghost[k[3:]] = vc.bind("g", v.T)
				applied = true
			}
		}
		if !applied && x.fc != nil && x.fc.Opts["go-ignore"] != "" {
			// the launched goroutine is outside the contract: it runs later / concurrently and is not
			// verified; nothing it does is reflected (reported as an assumption below)
			applied = true
		}
		if !applied {
			return unsupported("go statement")
		}
		if vc.dry == 0 {
			p := x.pos(i.Pos())
			vc.trusted[fmt.Sprintf("goroutine launched at %s:%d: body not verified; its effects are abstracted by the declared ghost updates and rely", shortFile(p.Filename), p.Line)] = true
		}
		return nil
	case *ssa.Select:
		return unsupported("select statement")
	case *ssa.Send:
		return unsupported("channel send")
	case *ssa.MakeChan:
		x.setReg(st, i, Val{T: vc.allocRef(st, "chan")})
		return nil
	case *ssa.Range:
		// range over a map: the iterator is the map reference; every Next below yields an arbitrary
		// entry that is present at that moment, or ends the loop (a sound over-approximation: "each
		// key exactly once, all keys" is not modelled - the loop needs an invariant like any other)
		if _, ok := i.X.Type().Underlying().(*types.Map); !ok {
			return unsupported("range over string")
		}
		mv, err := x.val(st, i.X)
		if err != nil {
			return err
		}
		x.setReg(st, i, Val{T: mv.T, Typ: i.X.Type()})
		if vc.dry == 0 {
			vc.dropped["range over a map: arbitrary present entry per iteration, arbitrary number of iterations"] = true
		}
		return nil
	case *ssa.Next:
		if i.IsString {
			return unsupported("range over string")
		}
		rng, ok := i.Iter.(*ssa.Range)
		if !ok {
			return unsupported("next on %T", i.Iter)
		}
		mt, ok := rng.X.Type().Underlying().(*types.Map)
		if !ok {
			return unsupported("range over string")
		}
		mv, err := x.val(st, i.Iter)
		if err != nil {
			return err
		}
		hk, hs, vk, vs := vc.mapKeys(mt)
		okT := vc.freshConst("rng_ok", SBool)
		kT := vc.freshConst("rng_k", vc.sortOf(mt.Key()))
		vT := vc.freshConst("rng_v", vc.sortOf(mt.Elem()))
		isNil := Eq(mv.T, intLit64(0))
		has := And(Not(isNil), Select(Select(vc.heapGet(st, hk, hs), mv.T), kT))
		vc.assume(st.pc, Implies(okT, And(has, Eq(vT, Select(Select(vc.heapGet(st, vk, vs), mv.T), kT)))))
		vc.assume(st.pc, vc.wf(st, kT, mt.Key(), 0))
		vc.assume(st.pc, vc.wf(st, vT, mt.Elem(), 0))
		x.setReg(st, i, Val{Tuple: []Val{{T: okT, Typ: types.Typ[types.Bool]}, {T: kT, Typ: mt.Key()}, {T: vT, Typ: mt.Elem()}}})
		return nil
	case *ssa.SliceToArrayPointer:
		return unsupported("slice to array pointer")
	case *ssa.MultiConvert:
		return unsupported("generic conversion")
	}
	return unsupported("instruction %T", in)
}

func (vc *VC) mapKeys(mt *types.Map) (string, string, string, string) {
	ks, vs := vc.sortOf(mt.Key()), vc.sortOf(mt.Elem())
	k := typeKey(mt.Key()) + "->" + typeKey(mt.Elem())
	return "MH:" + k, arraySort(SInt, arraySort(ks, SBool)), "MV:" + k, arraySort(SInt, arraySort(ks, vs))
}

// toIdx converts an integer value to the index sort (int64 signed semantics preserved for range checks).
func (x *Exec) toIdx(v Val, t types.Type) Term {
	k, ok := intKindOf(t)
	if !ok {
		return v.T
	}
	if k.W == 64 {
		return v.T // uint64 indices: compared unsigned in inBounds
	}
	return x.vc.ar.Convert(v.T, k, kInt)
}

func (x *Exec) inBounds(idx, ln Term, it types.Type) Term {
	k, _ := intKindOf(it)
	if k.W == 64 && !k.Signed {
		return x.vc.ar.Cmp("<", idx, ln, IntKind{64, false})
	}
	return And(x.vc.ar.Cmp(">=", idx, x.vc.idx(0), kInt), x.vc.ar.Cmp("<", idx, ln, kInt))
}

func (x *Exec) load(fr *frame, st *State, p Val, pos token.Pos) (Val, error) {
	vc := x.vc
	if p.T.S == "WILD" {
		return Val{}, unsupported("load through a pointer-valued local modified in a loop")
	}
	if p.Loc != nil {
		v, err := vc.loadLoc(st, p.Loc)
		if err != nil {
			return Val{}, err
		}
		if p.Loc.Kind != LCell && v.Loc == nil && v.Tuple == nil && v.Clo == nil {
			v.T = vc.bind("ld", v.T)
			vc.assume(st.pc, vc.wf(st, v.T, v.Typ, 0))
			// The entry heap is closed: what an object that existed at entry holds in a field or
			// element nobody has written since entry was itself allocated at entry (so it is
			// distinct from everything the function allocates).
			if (p.Loc.Kind == LField || p.Loc.Kind == LElem) && x.entry != nil && st.epoch == 0 && p.Loc.Ref.S != "" {
				if h, ok := st.heap[p.Loc.Key]; !ok || strings.HasPrefix(h.S, "H0_") {
					a0 := vc.heapInitial("$alloc", arraySort(SInt, SBool))
					e0 := &State{heap: map[string]Term{"$alloc": a0}}
					vc.assume(st.pc, Implies(Select(a0, p.Loc.Ref), vc.wf(e0, v.T, v.Typ, 0)))
				}
			}
		}
		return v, nil
	}
	pt, ok := p.Typ.Underlying().(*types.Pointer)
	if !ok {
		return Val{}, unsupported("load through %s", p.Typ)
	}
	x.nonNil(fr, st, p.T, pos, "load")
	t, err := vc.loadObject(st, p.T, pt.Elem())
	if err != nil {
		return Val{}, err
	}
	t = vc.bind("ld", t)
	vc.assume(st.pc, vc.wf(st, t, pt.Elem(), 0))
	return Val{T: t, Typ: pt.Elem()}, nil
}

func (x *Exec) store(fr *frame, st *State, a Val, v Val, pos token.Pos) error {
	if a.T.S == "WILD" {
		pt, ok := a.Typ.Underlying().(*types.Pointer)
		if !ok {
			return unsupported("store through unknown non-pointer")
		}
		return x.wildStore(fr, st, pt.Elem())
	}
	if a.Loc != nil {
		return x.vc.storeLoc(st, a.Loc, v)
	}
	pt, ok := a.Typ.Underlying().(*types.Pointer)
	if !ok {
		return unsupported("store through %s", a.Typ)
	}
	x.nonNil(fr, st, a.T, pos, "store")
	if v.Loc != nil || v.Clo != nil {
		return unsupported("pointer/closure stored through object pointer")
	}
	return x.vc.storeObject(st, a.T, pt.Elem(), v.T)
}

// wildStore: a store through a pointer whose target is unknown (a pointer-valued local that a
// loop modified). By Go's typing the target is some location of static type elem: every heap
// map whose element type is identical to elem is havoced.
func (x *Exec) wildStore(fr *frame, st *State, elem types.Type) error {
	vc := x.vc
	if st.epoch != 0 && false {
		return nil
	}
	keys := map[string]string{}
	ck, cs := vc.cellKey(elem)
	keys[ck] = cs
	ek, es := vc.elemKey(elem)
	keys[ek] = es
	seen := map[*types.Package]bool{}
	var visit func(p *types.Package)
	visit = func(p *types.Package) {
		if p == nil || seen[p] || !strings.HasPrefix(p.Path(), repoModule) {
			return
		}
		seen[p] = true
		for _, name := range p.Scope().Names() {
			tn, ok := p.Scope().Lookup(name).(*types.TypeName)
			if !ok {
				continue
			}
			su, ok := tn.Type().Underlying().(*types.Struct)
			if !ok {
				continue
			}
			for i := 0; i < su.NumFields(); i++ {
				if types.Identical(su.Field(i).Type(), elem) {
					k, s := vc.fieldKey(tn.Type(), i)
					keys[k] = s
				}
			}
		}
	}
	for _, pkg := range x.eng.pkgs {
		visit(pkg.Types)
	}
	var ks []string
	for k := range keys {
		ks = append(ks, k)
	}
	sort.Strings(ks)
	for _, k := range ks {
		vc.setHeap(st, k, vc.freshConst("Hw", keys[k]), -1)
	}
	if vc.dry == 0 {
		vc.dropped["store through a loop-modified pointer of type *"+typeKey(elem)+": all locations of that type havoced"] = true
	}
	return nil
}

// privateAlloc: the address of this heap-allocated local is never handed to code that is not
// executed as part of this function.
func privateAlloc(a *ssa.Alloc) bool {
	refs := a.Referrers()
	if refs == nil {
		return false
	}
	var okAddr func(v ssa.Value, depth int) bool
	okAddr = func(v ssa.Value, depth int) bool {
		if depth > 4 {
			return false
		}
		rs := v.Referrers()
		if rs == nil {
			return false
		}
		for _, r := range *rs {
			switch u := r.(type) {
			case *ssa.Store:
				if u.Val == v {
					return false // the address itself is stored somewhere
				}
			case *ssa.UnOp:
				if u.Op != token.MUL {
					return false
				}
			case *ssa.DebugRef:
			case *ssa.FieldAddr:
				if !okAddr(u, depth+1) {
					return false
				}
			case *ssa.IndexAddr:
				if u.X != v || !okAddr(u, depth+1) {
					return false
				}
			case *ssa.MakeClosure:
				// a closure that only ever reads the variable (also when it escapes, e.g. a callback
				// handed to a library) cannot change it
				if closureOnlyReads(u, v, 0) {
					continue
				}
				// otherwise the closure may only be run from here: go, defer or a direct call
				crs := u.Referrers()
				if crs == nil {
					return false
				}
				for _, cr := range *crs {
					switch cu := cr.(type) {
					case *ssa.Go:
						if cu.Call.Value != u {
							return false
						}
					case *ssa.Defer:
						if cu.Call.Value != u {
							return false
						}
					case *ssa.Call:
						if cu.Call.Value != u {
							return false
						}
					case *ssa.DebugRef:
					default:
						return false
					}
				}
			default:
				return false
			}
		}
		return true
	}
	return okAddr(a, 0)
}

// closureOnlyReads: the function literal mc captures the variable whose address is v and does
// nothing with it but load it (directly, or in nested literals that only load it).
func closureOnlyReads(mc *ssa.MakeClosure, v ssa.Value, depth int) bool {
	if depth > 3 {
		return false
	}
	fn, ok := mc.Fn.(*ssa.Function)
	if !ok {
		return false
	}
	if fn.Blocks == nil && fn.Pkg != nil {
		fn.Pkg.Build()
	}
	for i, b := range mc.Bindings {
		if b != v {
			continue
		}
		if i >= len(fn.FreeVars) {
			return false
		}
		fv := fn.FreeVars[i]
		rs := fv.Referrers()
		if rs == nil {
			continue
		}
		for _, r := range *rs {
			switch u := r.(type) {
			case *ssa.UnOp:
				if u.Op != token.MUL {
					return false
				}
			case *ssa.DebugRef:
			case *ssa.MakeClosure:
				if !closureOnlyReads(u, fv, depth+1) {
					return false
				}
			default:
				return false
			}
		}
	}
	return true
}

func (x *Exec) execSlice(fr *frame, st *State, i *ssa.Slice) error {
	vc := x.vc
	xv, err := x.val(st, i.X)
	if err != nil {
		return err
	}
	idxS := vc.ar.IdxSort()
	getIdx := func(v ssa.Value) (Term, bool, error) {
		if v == nil {
			return Term{}, false, nil
		}
		iv, err := x.val(st, v)
		if err != nil {
			return Term{}, false, err
		}
		return x.toIdx(iv, v.Type()), true, nil
	}
	lo, hasLo, err := getIdx(i.Low)
	if err != nil {
		return err
	}
	hi, hasHi, err := getIdx(i.High)
	if err != nil {
		return err
	}
	mx, hasMax, err := getIdx(i.Max)
	if err != nil {
		return err
	}
	z := vc.idx(0)
	if !hasLo {
		lo = z
	}
	switch t := i.X.Type().Underlying().(type) {
	case *types.Slice:
		off, ln, cp := app(idxS, "s-off", xv.T), app(idxS, "s-len", xv.T), app(idxS, "s-cap", xv.T)
		if !hasHi {
			hi = ln
		}
		if !hasMax {
			mx = cp
		}
		g := And(vc.ar.Cmp("<=", z, lo, kInt), vc.ar.Cmp("<=", lo, hi, kInt), vc.ar.Cmp("<=", hi, mx, kInt), vc.ar.Cmp("<=", mx, cp, kInt))
		x.safetyObl(fr, st, "slice", i.Pos(), g, "slice bounds out of range")
		noff, _ := vc.ar.Bin("+", off, lo, kInt)
		nlen, _ := vc.ar.Bin("-", hi, lo, kInt)
		ncap, _ := vc.ar.Bin("-", mx, lo, kInt)
		x.setReg(st, i, Val{T: vc.bind(i.Name(), app("Slice", "mk-slice", app(SInt, "s-ref", xv.T), noff, nlen, ncap))})
	case *types.Basic: // string
		ln := app(idxS, "gs.len", xv.T)
		if !hasHi {
			hi = ln
		}
		g := And(vc.ar.Cmp("<=", z, lo, kInt), vc.ar.Cmp("<=", lo, hi, kInt), vc.ar.Cmp("<=", hi, ln, kInt))
		x.safetyObl(fr, st, "slice", i.Pos(), g, "slice bounds out of range")
		x.setReg(st, i, Val{T: vc.bind(i.Name(), vc.strSub(xv.T, lo, hi))})
	case *types.Pointer:
		at, ok := t.Elem().Underlying().(*types.Array)
		if !ok {
			return unsupported("slice of %s", i.X.Type())
		}
		if xv.Loc != nil {
			return unsupported("slicing an array stored inside a value")
		}
		n := vc.idx(at.Len())
		if !hasHi {
			hi = n
		}
		if !hasMax {
			mx = n
		}
		x.nonNil(fr, st, xv.T, i.Pos(), "slice of array pointer")
		g := And(vc.ar.Cmp("<=", z, lo, kInt), vc.ar.Cmp("<=", lo, hi, kInt), vc.ar.Cmp("<=", hi, mx, kInt), vc.ar.Cmp("<=", mx, n, kInt))
		x.safetyObl(fr, st, "slice", i.Pos(), g, "slice bounds out of range")
		nlen, _ := vc.ar.Bin("-", hi, lo, kInt)
		ncap, _ := vc.ar.Bin("-", mx, lo, kInt)
		x.setReg(st, i, Val{T: vc.bind(i.Name(), app("Slice", "mk-slice", xv.T, lo, nlen, ncap))})
	default:
		return unsupported("slice of %s", i.X.Type())
	}
	return nil
}

func (vc *VC) strSub(s, lo, hi Term) Term {
	idx := vc.ar.IdxSort()
	vc.decl("fun:gs.sub", fmt.Sprintf("(declare-fun gs.sub (Str %s %s) Str)", idx, idx))
	r := app("Str", "gs.sub", s, lo, hi)
	ln, _ := vc.ar.Bin("-", hi, lo, kInt)
	vc.assert(Eq(app(idx, "gs.len", r), ln))
	// characters
	i := "i!q"
	add := "(+ " + lo.S + " " + i + ")"
	lt0, lt1 := "(<= 0 "+i+")", "(< "+i+" "+ln.S+")"
	if vc.ar.Mode == ModeBV {
		add = "(bvadd " + lo.S + " " + i + ")"
		lt0, lt1 = "(bvsle #x0000000000000000 "+i+")", "(bvslt "+i+" "+ln.S+")"
	}
	vc.assert(raw(fmt.Sprintf("(forall ((%s %s)) (! (=> (and %s %s) (= (gs.at %s %s) (gs.at %s %s))) :pattern ((gs.at %s %s))))", i, idx, lt0, lt1, r.S, i, s.S, add, r.S, i), SBool))
	return r
}

func (x *Exec) execConvert(fr *frame, st *State, i *ssa.Convert) error {
	vc := x.vc
	xv, err := x.val(st, i.X)
	if err != nil {
		return err
	}
	from, to := i.X.Type(), i.Type()
	fk, fok := intKindOf(from)
	tk, tok := intKindOf(to)
	switch {
	case fok && tok:
		x.setReg(st, i, Val{T: vc.bind(i.Name(), vc.ar.Convert(xv.T, fk, tk))})
		return nil
	case isString(to) && isByteSlice(from):
		x.setReg(st, i, Val{T: vc.bind(i.Name(), vc.bytesToStr(st, xv.T))})
		return nil
	case isByteSlice(to) && isString(from):
		s, err := vc.strToBytes(st, xv.T)
		if err != nil {
			return err
		}
		x.setReg(st, i, Val{T: s})
		return nil
	case isString(to) && isString(from):
		x.setReg(st, i, xv)
		return nil
	case isString(to) && fok:
		x.setReg(st, i, Val{T: vc.freshConst("runestr", "Str")})
		return nil
	}
	if vc.sortOf(from) == vc.sortOf(to) {
		xv.Typ = to
		x.setReg(st, i, xv)
		return nil
	}
	if vc.sortOf(to) == "Float" || vc.sortOf(from) == "Float" {
		x.setReg(st, i, Val{T: vc.freshConst("fconv", vc.sortOf(to))})
		if tok {
			vc.assume(st.pc, vc.ar.InRange(st.regs[i].T, tk))
		}
		return nil
	}
	return unsupported("conversion %s -> %s", from, to)
}

func isString(t types.Type) bool {
	b, ok := t.Underlying().(*types.Basic)
	return ok && b.Info()&types.IsString != 0
}

func isByteSlice(t types.Type) bool {
	s, ok := t.Underlying().(*types.Slice)
	if !ok {
		return false
	}
	b, ok := s.Elem().Underlying().(*types.Basic)
	return ok && b.Kind() == types.Uint8
}

// bytesToStrPure: the term for string(bs) without adding axioms to the trace (for specs).
func (vc *VC) bytesToStrPure(st *State, s Term) Term {
	idx := vc.ar.IdxSort()
	bs := vc.ar.Sort(IntKind{8, false})
	key, hs := vc.elemKey(types.Typ[types.Uint8])
	arr := Select(vc.heapGet(st, key, hs), app(SInt, "s-ref", s))
	as := arraySort(idx, bs)
	vc.decl("fun:gs.of", fmt.Sprintf("(declare-fun gs.of (%s %s %s) Str)", as, idx, idx))
	return app("Str", "gs.of", arr, app(idx, "s-off", s), app(idx, "s-len", s))
}

// bytesToStr: string(bs) as an uninterpreted function of contents, with len/at axioms.
func (vc *VC) bytesToStr(st *State, s Term) Term {
	idx := vc.ar.IdxSort()
	bs := vc.ar.Sort(IntKind{8, false})
	key, hs := vc.elemKey(types.Typ[types.Uint8])
	arr := Select(vc.heapGet(st, key, hs), app(SInt, "s-ref", s))
	as := arraySort(idx, bs)
	vc.decl("fun:gs.of", fmt.Sprintf("(declare-fun gs.of (%s %s %s) Str)", as, idx, idx))
	off, ln := app(idx, "s-off", s), app(idx, "s-len", s)
	r := vc.bind("str", app("Str", "gs.of", arr, off, ln))
	vc.assert(Eq(app(idx, "gs.len", r), ln))
	i := "i!q"
	add := "(+ " + off.S + " " + i + ")"
	lt0, lt1 := "(<= 0 "+i+")", "(< "+i+" "+ln.S+")"
	if vc.ar.Mode == ModeBV {
		add = "(bvadd " + off.S + " " + i + ")"
		lt0, lt1 = "(bvsle #x0000000000000000 "+i+")", "(bvslt "+i+" "+ln.S+")"
	}
	vc.assert(raw(fmt.Sprintf("(forall ((%s %s)) (! (=> (and %s %s) (= (gs.at %s %s) (select %s %s))) :pattern ((gs.at %s %s))))", i, idx, lt0, lt1, r.S, i, arr.S, add, r.S, i), SBool))
	return r
}

func (vc *VC) strToBytes(st *State, s Term) (Term, error) {
	idx := vc.ar.IdxSort()
	ref := vc.allocRef(st, "s2b")
	key, hs := vc.elemKey(types.Typ[types.Uint8])
	as := arraySort(idx, vc.ar.Sort(IntKind{8, false}))
	arr := vc.freshConst("s2barr", as)
	ln := app(idx, "gs.len", s)
	i := "i!q"
	lt0, lt1 := "(<= 0 "+i+")", "(< "+i+" "+ln.S+")"
	if vc.ar.Mode == ModeBV {
		lt0, lt1 = "(bvsle #x0000000000000000 "+i+")", "(bvslt "+i+" "+ln.S+")"
	}
	vc.assert(raw(fmt.Sprintf("(forall ((%s %s)) (! (=> (and %s %s) (= (select %s %s) (gs.at %s %s))) :pattern ((select %s %s))))", i, idx, lt0, lt1, arr.S, i, s.S, i, arr.S, i), SBool))
	vc.setHeap(st, key, vc.bind("E", Store(vc.heapGet(st, key, hs), ref, arr)), -1)
	return vc.bind("s2b", app("Slice", "mk-slice", ref, vc.idx(0), ln, ln)), nil
}

func (x *Exec) execTypeAssert(fr *frame, st *State, i *ssa.TypeAssert) error {
	vc := x.vc
	xv, err := x.val(st, i.X)
	if err != nil {
		return err
	}
	typ := app(SInt, "i-typ", xv.T)
	val := app(SInt, "i-val", xv.T)
	var ok, res Term
	if _, isIface := i.AssertedType.Underlying().(*types.Interface); isIface {
		name := "impl_" + sanitize(typeKey(i.AssertedType))
		vc.decl("fun:"+name, fmt.Sprintf("(declare-fun %s (Int) Bool)", name))
		ok = And(Not(Eq(typ, intLit64(0))), app(SBool, name, typ))
		if it, isI := i.X.Type().Underlying().(*types.Interface); isI {
			// asserting to a super-interface of the static type always succeeds for non-nil values
			if types.Implements(it, i.AssertedType.Underlying().(*types.Interface)) {
				ok = Not(Eq(typ, intLit64(0)))
			}
		}
		res = Ite(ok, xv.T, vc.zeroOf(i.AssertedType))
	} else {
		ok = Eq(typ, vc.tid(i.AssertedType))
		if pointerShaped(i.AssertedType) {
			res = Ite(ok, val, intLit64(0))
		} else {
			_, u := vc.boxFn(i.AssertedType)
			res = Ite(ok, app(vc.sortOf(i.AssertedType), u, val), vc.zeroOf(i.AssertedType))
		}
	}
	ok = vc.bind(i.Name()+"ok", ok)
	res = vc.bind(i.Name(), res)
	vc.assume(st.pc, vc.wf(st, res, i.AssertedType, 0))
	if i.CommaOk {
		x.setReg(st, i, Val{Tuple: []Val{{T: res, Typ: i.AssertedType}, {T: ok, Typ: types.Typ[types.Bool]}}})
		return nil
	}
	x.safetyObl(fr, st, "typeassert", i.Pos(), ok, "interface conversion panics")
	x.setReg(st, i, Val{T: res})
	return nil
}

// binop implements Go binary operators on values.
func (x *Exec) binop(fr *frame, st *State, op token.Token, a, b Val, at, bt, rt types.Type, pos token.Pos, checks bool) (Val, error) {
	vc := x.vc
	switch op {
	case token.EQL, token.NEQ:
		eq, err := x.equal(st, a, b, at, bt)
		if err != nil {
			return Val{}, err
		}
		if op == token.NEQ {
			eq = Not(eq)
		}
		return Val{T: eq, Typ: rt}, nil
	}
	k, ok := intKindOf(at)
	if !ok {
		if isString(at) {
			switch op {
			case token.ADD:
				vc.decl("fun:gs.cat", "(declare-fun gs.cat (Str Str) Str)")
				r := app("Str", "gs.cat", a.T, b.T)
				idx := vc.ar.IdxSort()
				sum, _ := vc.ar.Bin("+", app(idx, "gs.len", a.T), app(idx, "gs.len", b.T), kInt)
				r = vc.bind("cat", r)
				vc.assert(Eq(app(idx, "gs.len", r), sum))
				{
					// characters of a concatenation
					i := "i!q"
					la := app(idx, "gs.len", a.T).S
					lt0, lt1, inA, sub := "(<= 0 "+i+")", "(< "+i+" "+sum.S+")", "(< "+i+" "+la+")", "(- "+i+" "+la+")"
					if vc.ar.Mode == ModeBV {
						lt0, lt1, inA, sub = "(bvsle #x0000000000000000 "+i+")", "(bvslt "+i+" "+sum.S+")", "(bvslt "+i+" "+la+")", "(bvsub "+i+" "+la+")"
					}
					vc.assert(raw(fmt.Sprintf("(forall ((%s %s)) (! (=> (and %s %s) (= (gs.at %s %s) (ite %s (gs.at %s %s) (gs.at %s %s)))) :pattern ((gs.at %s %s))))", i, idx, lt0, lt1, r.S, i, inA, a.T.S, i, b.T.S, sub, r.S, i), SBool))
				}
				return Val{T: r, Typ: rt}, nil
			case token.LSS, token.LEQ, token.GTR, token.GEQ:
				vc.decl("fun:gs.lt", "(declare-fun gs.lt (Str Str) Bool)")
				var t Term
				switch op {
				case token.LSS:
					t = app(SBool, "gs.lt", a.T, b.T)
				case token.GTR:
					t = app(SBool, "gs.lt", b.T, a.T)
				case token.LEQ:
					t = Not(app(SBool, "gs.lt", b.T, a.T))
				default:
					t = Not(app(SBool, "gs.lt", a.T, b.T))
				}
				return Val{T: t, Typ: rt}, nil
			}
		}
		if vc.sortOf(at) == "Float" {
			return Val{T: vc.freshConst("fop", vc.sortOf(rt)), Typ: rt}, nil
		}
		if at.Underlying() == types.Typ[types.Bool] || vc.sortOf(at) == SBool {
			switch op {
			case token.AND, token.LAND:
				return Val{T: And(a.T, b.T), Typ: rt}, nil
			case token.OR, token.LOR:
				return Val{T: Or(a.T, b.T), Typ: rt}, nil
			}
		}
		return Val{}, unsupported("operator %s on %s", op, at)
	}
	switch op {
	case token.LSS, token.LEQ, token.GTR, token.GEQ:
		return Val{T: vc.ar.Cmp(op.String(), a.T, b.T, k), Typ: rt}, nil
	case token.SHL, token.SHR:
		yk, _ := intKindOf(bt)
		if yk.Signed && checks {
			x.safetyObl(fr, st, "shift", pos, vc.ar.Cmp(">=", b.T, vc.ar.Lit64(0, yk), yk), "negative shift amount")
		}
		yk2 := yk
		yk2.Signed = false
		if vc.ar.Mode == ModeInt && b.T.C == nil {
			// variable shift in int mode: pow2 axioms
			vc.needPow2()
		}
		r, err := vc.ar.Shift(op.String(), a.T, b.T, k, yk2)
		if err != nil {
			return Val{}, err
		}
		if vc.ar.Mode == ModeInt && op == token.SHL {
			r = x.overflow(fr, st, r, k, pos, checks)
		}
		return Val{T: r, Typ: rt}, nil
	case token.QUO, token.REM:
		if checks {
			x.safetyObl(fr, st, "divzero", pos, Not(Eq(b.T, vc.ar.Lit64(0, k))), "integer divide by zero")
		}
		if vc.ar.Mode == ModeInt && (!k.Signed) {
			// unsigned: plain div/mod
			if op == token.QUO {
				return Val{T: app(SInt, "div", a.T, b.T), Typ: rt}, nil
			}
			return Val{T: app(SInt, "mod", a.T, b.T), Typ: rt}, nil
		}
		r, err := vc.ar.Bin(op.String(), a.T, b.T, k)
		return Val{T: r, Typ: rt}, err
	}
	r, err := vc.ar.Bin(op.String(), a.T, b.T, k)
	if err != nil {
		return Val{}, err
	}
	if vc.ar.Mode == ModeInt {
		switch op {
		case token.ADD, token.SUB, token.MUL:
			r = x.overflow(fr, st, r, k, pos, checks)
		case token.AND, token.OR, token.XOR, token.AND_NOT:
			if !strings.HasPrefix(r.S, "(mod ") && r.C == nil {
				vc.assume(st.pc, vc.ar.InRange(r, k))
			}
		}
	}
	return Val{T: r, Typ: rt}, nil
}

func (vc *VC) needPow2() {
	vc.decl("ax:pow2", `(assert (= (pow2 0) 1))
(assert (forall ((n Int)) (! (=> (> n 0) (= (pow2 n) (* 2 (pow2 (- n 1))))) :pattern ((pow2 n)))))
(assert (forall ((n Int)) (! (=> (>= n 0) (> (pow2 n) 0)) :pattern ((pow2 n)))))`)
}

// overflow handles machine-integer overflow in Int mode according to the contract's choice.
func (x *Exec) overflow(fr *frame, st *State, r Term, k IntKind, pos token.Pos, checks bool) Term {
	vc := x.vc
	if r.C != nil {
		if r.C.Cmp(k.min()) >= 0 && r.C.Cmp(k.max()) <= 0 {
			return r
		}
	}
	switch x.overflw {
	case "assumed":
		vc.trusted["machine arithmetic treated as mathematical (overflow assumed absent) in "+x.vc.fnName] = true
		return r
	case "wrap":
		return vc.ar.Convert(r, IntKind{k.W * 2, true}, k) // forces wrap formula
	default:
		if checks {
			r = vc.bind("ar", r)
			x.safetyObl(fr, st, "overflow", pos, vc.ar.InRange(r, k), "integer overflow")
		}
		return r
	}
}

func (x *Exec) equal(st *State, a, b Val, at, bt types.Type) (Term, error) {
	vc := x.vc
	if a.Loc != nil || b.Loc != nil {
		return Term{}, unsupported("comparison of interior pointers")
	}
	if a.Clo != nil || b.Clo != nil {
		// func values can only be compared with nil
		if a.Clo != nil && b.Clo != nil {
			return Term{}, unsupported("comparison of functions")
		}
		return TFalse, nil
	}
	if _, ok := at.Underlying().(*types.Interface); ok {
		if _, ok2 := bt.Underlying().(*types.Interface); !ok2 {
			b = Val{T: vc.makeIface(b.T, bt), Typ: at}
		}
	} else if _, ok := bt.Underlying().(*types.Interface); ok {
		a = Val{T: vc.makeIface(a.T, at), Typ: bt}
	}
	if a.T.Sort == "Slice" {
		// only comparison with nil is legal
		if b.T.S == vc.zeroOf(bt).S {
			return Eq(app(SInt, "s-ref", a.T), intLit64(0)), nil
		}
		return Eq(app(SInt, "s-ref", b.T), intLit64(0)), nil
	}
	if a.T.Sort != b.T.Sort {
		return Term{}, unsupported("comparison of %s and %s", at, bt)
	}
	if a.T.Sort == "Str" {
		// Go string equality is extensional; Str is an uninterpreted sort, so for comparisons with a
		// (short) literal the definition is spelt out: s == "lit" <=> len(s) == n && s[0] == 'l' && ...
		for _, pr := range [][2]Term{{a.T, b.T}, {b.T, a.T}} {
			if lit, ok := vc.litOf(pr[1]); ok && len(lit) <= 64 {
				idx := vc.ar.IdxSort()
				cs := []Term{Eq(app(idx, "gs.len", pr[0]), vc.idx(int64(len(lit))))}
				for i := 0; i < len(lit); i++ {
					cs = append(cs, Eq(app(vc.ar.Sort(IntKind{8, false}), "gs.at", pr[0], vc.idx(int64(i))), vc.ar.Lit64(int64(lit[i]), IntKind{8, false})))
				}
				e := vc.bind("streq", Eq(a.T, b.T))
				vc.assert(Eq(e, And(cs...)))
				return e, nil
			}
		}
	}
	return Eq(a.T, b.T), nil
}

// lateTargets evaluates the "opt protect-local" designators in the given state (those whose
// local variables are live).
func (x *Exec) lateTargets(st *State) []modTarget {
	if len(x.lateProt) == 0 || x.topFr == nil {
		return nil
	}
	x.vc.dry++
	defer func() { x.vc.dry-- }()
	env := x.specEnv(x.topFr, st, nil)
	var out []modTarget
	for _, pe := range x.lateProt {
		ts, err := x.designator(pe, env)
		if err != nil {
			continue
		}
		for _, t := range ts {
			if !t.all {
				out = append(out, t)
			}
		}
	}
	return out
}
