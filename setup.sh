#!/bin/sh
# Builds the VC generator from files under /verif only (x/tools is vendored).
set -e
cd "$(dirname "$0")/engine"
export GOFLAGS=-mod=vendor GOPROXY=off GOSUMDB=off GOTOOLCHAIN=local
mkdir -p ../bin
go build -o ../bin/govc .
echo "govc built"
